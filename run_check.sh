#!/bin/bash
# usage: run_check.sh <property-id> quick|thorough      decide one property (rebuilds from /repo's working tree)
#        run_check.sh replay <file>                      re-execute a replay file
#        run_check.sh selftest-determinism [runs]        every world twice, 1 worker vs 16 workers, separate processes
# exit: 0 held on everything explored / 1 violation (VIOLATION line) / 2 harness error
set -u
ROOT="$(cd "$(dirname "${BASH_SOURCE[0]}")" && pwd)"
export VERIF_ROOT="$ROOT"
export CARGO_NET_OFFLINE=true
cd "$ROOT/sim" || exit 2
# /repo's rust-toolchain.toml does not apply here (this crate lives outside /repo); build with the default toolchain.
LOG="$(mktemp)"
if ! cargo build --release --offline >"$LOG" 2>&1; then
    echo "HARNESS-ERROR build failed (the simulator is built from /repo's current working tree):"
    grep -E "^error" -A12 "$LOG" | head -60
    rm -f "$LOG"
    exit 2
fi
rm -f "$LOG"
BIN="${CARGO_TARGET_DIR:-$ROOT/sim/target}/release/verif"
case "${1:-}" in
    replay) exec "$BIN" replay "$2" ;;
    selftest-determinism)
        RUNS="${2:-150}"
        T="$(mktemp -d)"
        rc=0
        for w in $("$BIN" list | tr ' ' '\n' | grep '×' | sed 's/×.*//' | sort -u); do
            VERIF_OUT="$T" VERIF_RUNS="$RUNS" VERIF_WORKERS=1 "$BIN" digest "$w" | grep '^D ' >"$T/a.$w"
            VERIF_OUT="$T" VERIF_RUNS="$RUNS" VERIF_WORKERS=16 "$BIN" digest "$w" | grep '^D ' >"$T/b.$w"
            VERIF_OUT="$T" VERIF_RUNS="$RUNS" VERIF_WORKERS=5 "$BIN" digest "$w" | grep '^D ' >"$T/c.$w"
            if cmp -s "$T/a.$w" "$T/b.$w" && cmp -s "$T/a.$w" "$T/c.$w" && [ "$(wc -l <"$T/a.$w")" = "$RUNS" ]; then
                echo "deterministic: $w ($RUNS runs x 3 processes, 1/16/5 workers)"
            else
                echo "HARNESS-ERROR nondeterministic world $w"; rc=2
            fi
        done
        rm -rf "$T"
        exit $rc ;;
    "") echo "usage: $0 <property> quick|thorough | replay <file> | selftest-determinism"; exit 2 ;;
    *) exec "$BIN" check "$1" "${2:-${VERIF_TIER:-quick}}" ;;
esac
