#!/usr/bin/env python3
"""usage: seed_prompt.py <prop> <name>   — prints the brief handed to a fresh sub-agent that writes two property-breaking
changes in the scratch worktree /tmp/wt/<name> (output /tmp/seed_out/<name>/{A,B}). The brief contains the property
record (statement + anchored files) and one-line summaries of the changes already recorded for that property
("do not repeat") — nothing else from /verif."""
import sys, json, glob
prop, name = sys.argv[1:3]
rec = next(json.loads(l) for l in open('/verif/properties.jsonl') if json.loads(l)['id'] == prop)
tried = [json.load(open(m))['summary'] for m in sorted(glob.glob(f'/verif/seeded/{prop}-*/meta.json'))]
files = ", ".join(rec['anchors']['files'])
print(f"""You are helping evaluate a verification tool by writing realistic bugs ("seeded mutations") for a Rust/Soroban smart-contract library.

WORK AREA: the git worktree /tmp/wt/{name} (a checkout of OpenZeppelin/stellar-contracts). Work ONLY there and in the output directory /tmp/seed_out/{name}/. Do NOT read or write anything under /verif, /root/scratch*, /root/.claude or /root/.vp, do not read other directories under /tmp/seed_out or /tmp/wt, and do not modify /repo (you may read /repo and copy its build cache). The sandbox is offline. Prefix every cargo command with `RUSTUP_TOOLCHAIN=stable-x86_64-unknown-linux-gnu CARGO_NET_OFFLINE=true` and pass `--offline`. To avoid rebuilding all dependencies, first run `cp -r /repo/target /tmp/wt/{name}/target` (about 8 GB) and build inside the worktree (default target dir). The existing test suite is run with `cargo nextest run --workspace --offline` from the worktree root (fallback: `cargo test --workspace --offline`); on the untouched tree it passes 1131 tests.

PROPERTY (the thing your bugs must break):
{prop} — {rec['title']}
{rec['statement']}
It must hold for: {rec['quantifier']['text']}.

This is a LATER round; the obvious places have been used. Already tried by others (do NOT repeat these or close variants):
""" + "\n".join(f" - {t}" for t in tried) + f"""
Read the code yourself (start from {files}; follow it into the examples/ contracts that use these modules and into every entry point, getter, storage tier / TTL handling, event and limit that the property statement touches) and find something the others did not. Kinds of slip that are often overlooked: a value written to the wrong storage tier or with the wrong lifetime, an event or return value that no longer matches what was moved, two same-typed arguments swapped at one call site, a check moved after the effect it should guard, a boundary comparison off by one at a documented limit, a default trait method or example contract wired to the wrong helper, state left behind on a failure or early-return path.

TASK: produce TWO independent source changes (A and B, touching different code sites / different clauses of the property) to the library or example contract code (NOT to tests), each of which
 (a) makes the code violate the property above;
 (b) still compiles, and the WHOLE existing test suite still passes unchanged (you must run it and confirm 1131 passed, 0 failed);
 (c) needs something specific to manifest — a particular history, timing, caller / authorization set, size or configuration — NOT something the first ordinary call would expose;
 (d) is realistic: the kind of slip a maintainer could make in a refactor. No obviously malicious code, no special-casing of magic constants or addresses.

For each of A and B write into /tmp/seed_out/{name}/A/ (resp. B/):
 - patch.diff : `git diff` against HEAD of the worktree, containing ONLY the source change (it must apply with `git apply patch.diff` at the repository root);
 - demo.diff : a second diff that ONLY adds a demonstration test (a new #[test] in an existing test module or a new test file wired into a crate) which FAILS with patch.diff applied and PASSES without it. Verify both directions yourself by actually running it;
 - notes.md : which clause of the property breaks, what exactly is needed to manifest it, the exact commands you ran and their results (suite result with the patch, demo result with and without the patch).

When done, leave the worktree clean (`git checkout -- . && git clean -fd -e target`; do not use `git stash`), keeping results only in /tmp/seed_out/{name}/. Finish with a short summary of the two changes (file, function, one line each) and the verification results. If you cannot find a second change satisfying all conditions, deliver one and say so.""")
