#!/usr/bin/env python3
"""Regenerates the seeded-changes table of DESIGN.md (between the SEED-TABLE markers) from seeded/*/meta.json.
One line per change; what it needs to manifest, the confirmation runs and the full notes stay in meta.json / notes.md."""
import json, glob
def cut(s, n):
    s = " ".join(s.split()).replace("|", "/")
    return s if len(s) <= n else s[:n - 1] + "…"
rows, missed_first, not_detected = [], [], []
for f in sorted(glob.glob('/verif/seeded/*/meta.json')):
    m = json.load(open(f)); cr = m['check_run']
    sigs = []
    for r in cr.get('reported', []):
        s = f"{r['world']}: `{r['signature']}`"
        if s not in sigs: sigs.append(s)
    first = m.get('first_evaluation')
    if 'not counted as a miss' in m.get('note', '') or m.get('breaks_property', '').startswith('C01 (proposed'):
        now = "n/a (does not break this property; see meta.json)"
    elif cr.get('detected'):
        vh, h = cr.get('violating_histories'), cr.get('histories')
        now = "yes" + (f" ({vh} of {h} histories)" if vh is not None and h else "")
    elif m.get('check_run_thorough', {}).get('detected'):
        now = "quick: **no**; thorough: yes (see meta.json)"
    else:
        now = "**no**"; not_detected.append(m['id'])
    if first: missed_first.append(m['id'])
    rows.append(f"| {m['id']} | {cut(m['summary'], 130)} | {'missed' if first else 'reported'} | {now} | {sigs[0] if sigs else ''} |")
table = ("| id | change | first evaluation | property's quick check now (seed 1) | first signature |\n|---|---|---|---|---|\n" + "\n".join(rows) + "\n\n"
         + f"{len(rows)} changes; missed at their first evaluation and reported after the check was strengthened: {', '.join(missed_first)}.\n")
p = '/verif/DESIGN.md'
s = open(p).read()
a, b = '<!-- SEED-TABLE-BEGIN -->\n', '<!-- SEED-TABLE-END -->'
s = s[:s.index(a) + len(a)] + table + s[s.index(b):]
open(p, 'w').write(s)
print(len(rows), "rows; missed first:", len(missed_first), "; not detected now:", not_detected)
