#!/usr/bin/env python3
"""Regenerates the seeded-changes table of DESIGN.md (between the SEED-TABLE markers) from seeded/*/meta.json."""
import json, glob, re, os
rows = []
for f in sorted(glob.glob('/verif/seeded/*/meta.json')):
    m = json.load(open(f))
    rep = m['check_run']['reported']
    sigs = []
    for r in rep:
        s = f"{r['world']}: `{r['signature']}`"
        if s not in sigs:
            sigs.append(s)
    det = m['check_run'].get('detected')
    tier = m['check_run'].get('tier', 'quick')
    note = m.get('note', '')
    rows.append(f"| {m['id']} | {m['summary']} | {m['needs_to_manifest']} | {'yes (' + tier + ')' if det else '**no**'} | {'; '.join(sigs[:3])}{(' — ' + note) if note else ''} |")
table = "| id | change | needs, to manifest | reported by the property's check | signatures (first three) |\n|---|---|---|---|---|\n" + "\n".join(rows) + "\n"
p = '/verif/DESIGN.md'
s = open(p).read()
a, b = '<!-- SEED-TABLE-BEGIN -->\n', '<!-- SEED-TABLE-END -->'
if a in s:
    s = s[:s.index(a) + len(a)] + table + s[s.index(b):]
    open(p, 'w').write(s)
print(table)
