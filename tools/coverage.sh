#!/bin/bash
# usage: tools/coverage.sh [scale]   — source-coverage reach of the registered quick checks over /repo (packages + examples).
# Builds the simulator with -C instrument-coverage into a scratch target, runs every claimed property's quick check at the
# given fraction of its run budget (default 0.05; instrumented runs are ~20x slower, 3 workers to limit counter contention),
# merges the profiles and writes coverage/summary.txt (per file) and coverage/unexecuted_functions.txt.
# Needs llvm-profdata / llvm-cov of the nightly toolchain (same LLVM major as stable). Not a registered check.
set -eu
cd "$(dirname "$0")/.."
S="${VERIF_SCRATCH:-/root/scratch2}/cov"; SCALE="${1:-0.05}"
T="$(ls -d ~/.rustup/toolchains/nightly-x86_64-unknown-linux-gnu/lib/rustlib/*/bin | head -1)"
mkdir -p "$S/raw" coverage; rm -f "$S"/raw/*.profraw
( cd sim && LLVM_PROFILE_FILE="$S/build-%p.profraw" CARGO_TARGET_DIR="$S/../cov-target" RUSTFLAGS="-C instrument-coverage" CARGO_NET_OFFLINE=true cargo build --release --offline 2>&1 | tail -1 )
rm -f "$S"/build-*.profraw
for p in $(python3 -c "import json;print(' '.join(c['property_id'] for c in json.load(open('MANIFEST.json'))['checks']))"); do
  LLVM_PROFILE_FILE="$S/raw/$p-%p.profraw" VERIF_WORKERS=3 VERIF_SCALE="$SCALE" VERIF_ROOT="$PWD" VERIF_OUT="$S/out" timeout 1500 "$S/../cov-target/release/verif" check "$p" quick 2>&1 | tail -1
done
"$T/llvm-profdata" merge -sparse "$S"/raw/*.profraw -o "$S/all.profdata"
"$T/llvm-cov" export "$S/../cov-target/release/verif" -instr-profile="$S/all.profdata" --ignore-filename-regex='(\.cargo|rustc|/verif/sim)' -format=text 2>/dev/null > "$S/export.json"
python3 - "$S/export.json" <<'PY' > coverage/summary.txt
import json, sys
d = json.load(open(sys.argv[1]))['data'][0]
rows = []
for f in d['files']:
    n = f['filename']
    if not n.startswith('/repo/'): continue
    s = f['summary']
    rows.append((n[6:], s['functions']['count'], s['functions']['covered'], s['lines']['count'], s['lines']['covered']))
rows.sort()
print(f"{'file':72} {'functions':>10} {'executed':>9} {'lines':>7} {'executed':>9} {'%':>6}")
tf = te = tl = tc = 0
for n, fc, fe, lc, le in rows:
    print(f"{n:72} {fc:10} {fe:9} {lc:7} {le:9} {100.0*le/max(lc,1):6.1f}")
    tf += fc; te += fe; tl += lc; tc += le
print(f"{'TOTAL':72} {tf:10} {te:9} {tl:7} {tc:9} {100.0*tc/max(tl,1):6.1f}")
PY
python3 - "$S/export.json" <<'PY' > coverage/unexecuted_functions.txt
import json, sys, collections
d = json.load(open(sys.argv[1])); agg = {}
for f in d['data'][0]['functions']:
    file = f['filenames'][0]
    if not file.startswith('/repo/'): continue
    e = agg.setdefault((file, f['regions'][0][0]), 0); agg[(file, f['regions'][0][0])] = e + f['count']
by = collections.defaultdict(list)
for (file, line), n in sorted(agg.items()):
    if n == 0: by[file].append(line)
for file, lines in by.items():
    src = open(file).read().split('\n')
    for l in lines:
        print(f"{file[6:]}:{l}: {src[l-1].strip()[:110]}")
PY
head -3 coverage/summary.txt; tail -1 coverage/summary.txt
