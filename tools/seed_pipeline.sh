#!/bin/bash
# usage: tools/seed_pipeline.sh <prop>...   — for each property: confirm A and B in /tmp/wt/<prop>, then run the check
# against each patch; logs to /tmp/confirm_<prop>.log and /tmp/eval_<prop>.log. Waits for other pipeline jobs first.
cd "$(dirname "$0")/.."
exec 9>/tmp/seed_pipeline.lock; flock 9
for p in "$@"; do
  prop="${p##*_}"   # R2_C01 -> C01
  for l in A B C; do
    [ -f /tmp/seed_out/$p/$l/patch.diff ] || continue
    echo "#### $p/$l"; tools/confirm_seed.sh /tmp/wt/$p /tmp/seed_out/$p/$l
  done > /tmp/confirm_$p.log 2>&1
  for l in A B C; do
    [ -f /tmp/seed_out/$p/$l/patch.diff ] || continue
    echo "#### $p/$l -> $prop"; VERIF_FROM_HEAD=1 tools/with_patch.sh /tmp/seed_out/$p/$l/patch.diff $prop quick 2>&1 | grep -E "VIOLATION|check=|Quick:|HARNESS|error" | cut -c1-300 | head -8
  done > /tmp/eval_$p.log 2>&1
  git -C /repo worktree remove --force /tmp/wt/$p
done
