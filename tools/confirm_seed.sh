#!/bin/bash
# usage: tools/confirm_seed.sh <worktree> <dir with patch.diff and demo.diff>
# Confirms a seeded change independently: (1) suite passes with the patch, (2) with patch+demo exactly the
# demonstration tests fail, (3) with the demo alone everything passes. Leaves the worktree clean.
set -u
WT="$1"; D="$(readlink -f "$2")"
export RUSTUP_TOOLCHAIN=stable-x86_64-unknown-linux-gnu CARGO_NET_OFFLINE=true
cd "$WT" || exit 2
git checkout -q -- . && git clean -qfd -e target
run() { cargo nextest run --workspace --no-fail-fast --offline 2>&1 | grep -E "^\s+(Summary|FAIL)|error(\[|:)" | sort -u | head -20; }
git apply "$D/patch.diff" || { echo "PATCH DOES NOT APPLY"; exit 2; }
echo "== (1) suite with patch"; run
git apply "$D/demo.diff" || { echo "DEMO DOES NOT APPLY"; exit 2; }
echo "== (2) suite + demo with patch (demo must fail)"; run
git apply -R "$D/patch.diff"
echo "== (3) suite + demo without patch (all must pass)"; run
git checkout -q -- . && git clean -qfd -e target
