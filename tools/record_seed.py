#!/usr/bin/env python3
"""usage: record_seed.py <prop> <letter> <summary> <needs> <eval-log> [confirm-log]
Copies /tmp/seed_out/<prop>/<letter>/{patch.diff,demo.diff,notes.md} to /verif/seeded/<prop>-<letter>/ and writes meta.json
with what was run (confirmation in a scratch worktree; check run through tools/with_patch.sh) and what was reported."""
import sys, json, re, shutil, os
prop, letter, summary, needs, evallog = sys.argv[1:6]
conflog = sys.argv[6] if len(sys.argv) > 6 else None
# second-round seeds live in /tmp/seed_out/R2_<prop>/<A|B> and are recorded as <prop>-C / <prop>-D
srcname, srcletter = prop, letter
if prop.startswith("R2_"):
    srcname, prop = prop, prop[3:]
    letter = {"A": "C", "B": "D"}[srcletter]
elif prop.startswith("R3_"):
    srcname, prop = prop, prop[3:]
    letter = {"A": "E", "B": "F"}[srcletter]
elif prop.startswith("R4_"):
    srcname, prop = prop, prop[3:]
    letter = {"A": "G", "B": "H"}[srcletter]
elif prop.startswith("R5_"):
    srcname, prop = prop, prop[3:]
    letter = {"A": "I", "B": "J"}[srcletter]
elif prop.startswith("R6_"):
    srcname, prop = prop, prop[3:]
    letter = {"A": "K", "B": "L"}[srcletter]
src = f"/tmp/seed_out/{srcname}/{srcletter}"
dst = f"/verif/seeded/{prop}-{letter}"
os.makedirs(dst, exist_ok=True)
for f in ("patch.diff", "demo.diff", "notes.md"):
    shutil.copy(f"{src}/{f}", f"{dst}/{f}")
txt = open(evallog).read()
m = re.search(rf"#### {srcname}/{srcletter} -> (\S+)\n(.*?)(?=\n#### |\Z)", txt, re.S)
target, body = (m.group(1), m.group(2)) if m else (prop, "")
sigs = re.findall(r"world=(\S+) check=(\S+)", body)
detected = "VIOLATION property=" + target in body
conf = {}
if conflog:
    c = open(conflog).read()
    mm = re.search(rf"#### {srcname}/{srcletter}\n(.*?)(?=\n#### |\Z)", c, re.S)
    if mm:
        sums = re.findall(r"Summary \[.*?\] (.*)", mm.group(1))
        fails = re.findall(r"FAIL \[.*?\] \(.*?\) (.*)", mm.group(1))
        conf = {"suite_with_patch": sums[0] if sums else None, "suite_plus_demo_with_patch": sums[1] if len(sums) > 1 else None,
                "failing_tests_with_patch": sorted(set(fails)), "suite_plus_demo_without_patch": sums[2] if len(sums) > 2 else None}
meta = {
    "id": f"{prop}-{letter}", "breaks_property": prop, "summary": summary, "needs_to_manifest": needs,
    "origin": "written by a fresh sub-agent that saw only the property text and a scratch worktree of /repo (nothing from /verif)",
    "confirmed": {"how": "tools/confirm_seed.sh <scratch worktree> <dir>: (1) pinned suite with patch.diff, (2) suite + demo.diff with the patch, (3) suite + demo.diff without the patch", **conf},
    "check_run": {"command": f"tools/with_patch.sh seeded/{prop}-{letter}/patch.diff {target} quick   (VERIF_SEED=1; scratch copy of /repo bind-mounted over /repo in a private mount namespace)",
                  "detected": detected, "reported": [{"world": w, "signature": s} for w, s in sigs]},
}
json.dump(meta, open(f"{dst}/meta.json", "w"), indent=1)
print(dst, "detected" if detected else "MISSED", sigs[:3])
