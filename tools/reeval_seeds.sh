#!/bin/bash
# usage: tools/reeval_seeds.sh [ids...]   — run the committed (HEAD) quick check of each seeded change's property against
# the patched tree and rewrite the check_run section of its meta.json (the note is kept). Sequential; ~1.5 min per seed.
cd "$(dirname "$0")/.."
export VERIF_SCRATCH="${VERIF_SCRATCH:-/root/scratch3}" VERIF_FROM_HEAD=1
ids=("$@"); [ ${#ids[@]} -eq 0 ] && ids=($(ls seeded))
for id in "${ids[@]}"; do
  prop="${id%%-*}"
  out="$(tools/with_patch.sh seeded/$id/patch.diff $prop quick 2>&1 | grep -E "VIOLATION|check=|Quick:|HARNESS|error\[")"
  python3 - "$id" "$prop" "$out" <<'PY'
import sys, json, re, subprocess
i, prop, out = sys.argv[1:4]
p = f'/verif/seeded/{i}/meta.json'; m = json.load(open(p))
sigs = re.findall(r"world=(\S+) check=(\S+)", out)
det = f"VIOLATION property={prop}" in out
head = subprocess.run(['git', '-C', '/verif', 'rev-parse', '--short', 'HEAD'], capture_output=True, text=True).stdout.strip()
viol = re.search(r"violating_runs=(\d+)", out)
runs = re.search(r"runs=(\d+)", out)
m['check_run'] = {"command": f"VERIF_FROM_HEAD=1 tools/with_patch.sh seeded/{i}/patch.diff {prop} quick   (VERIF_SEED=1; /verif at {head}; scratch copy of /repo bind-mounted over /repo in a private mount namespace)",
                  "detected": det, "tier": "quick", "violating_histories": int(viol.group(1)) if viol else None, "histories": int(runs.group(1)) if runs else None,
                  "reported": [{"world": w, "signature": s} for w, s in sigs]}
if 'HARNESS' in out or 'error[' in out: m['check_run']['harness_error'] = out[:300]
json.dump(m, open(p, 'w'), indent=1)
print(i, 'detected' if det else 'MISSED', (viol.group(1) if viol else '?') + '/' + (runs.group(1) if runs else '?'), sigs[:2])
PY
done
