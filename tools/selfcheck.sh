#!/bin/bash
# usage: tools/selfcheck.sh [seeds...]   — every registered quick check for each seed on the current /repo tree;
# prints one line per (property, seed) that did not exit 0. Evidence goes to a scratch directory.
cd "$(dirname "$0")/.."
OUT="${VERIF_OUT:-/tmp/selfcheck-out}"; bad=0
for sd in "${@:-1}"; do
  for p in $(python3 -c "import json;print(' '.join(c['property_id'] for c in json.load(open('MANIFEST.json'))['checks']))"); do
    VERIF_SEED=$sd VERIF_OUT="$OUT" ./run_check.sh $p quick > "$OUT.$p.$sd.log" 2>&1; rc=$?
    if [ $rc -ne 0 ]; then bad=1; echo "NOT-CLEAN property=$p seed=$sd exit=$rc"; grep -E "VIOLATION|HARNESS|check=" "$OUT.$p.$sd.log" | cut -c1-400 | head -5; else rm -f "$OUT.$p.$sd.log"; fi
  done
done
[ $bad -eq 0 ] && echo "selfcheck clean for seeds: ${*:-1}"
exit $bad
