#!/bin/bash
# usage: tools/with_patch.sh <patch.diff> <property> [tier] [extra env assignments...]
# Runs a property check against a scratch copy of /repo with <patch.diff> applied, WITHOUT touching /repo:
# the copy is bind-mounted over /repo inside a private mount namespace; build output goes to a scratch
# target directory; evidence/replays go to a scratch output directory (never to /verif/evidence).
set -eu
PATCH="$(readlink -f "$1")"; PROP="$2"; TIER="${3:-quick}"
S="${VERIF_SCRATCH:-/root/scratch}"
COPY="$S/mut-repo.$$"
mkdir -p "$S"
rsync -a --delete --exclude target --exclude .git /repo/ "$COPY/"
( cd "$COPY" && patch -p1 --no-backup-if-mismatch -s < "$PATCH" )
# cargo decides freshness by mtime: make every source of the copy newer than the last build
find "$COPY" -name '*.rs' -exec touch {} +
ROOT="$(cd "$(dirname "${BASH_SOURCE[0]}")/.." && pwd)"
if [ "${VERIF_FROM_HEAD:-0}" = 1 ]; then
    # run the checks as committed (HEAD of /verif), not the working tree that may be mid-edit
    rm -rf "$S/verif-head"; mkdir -p "$S/verif-head"
    git -C "$ROOT" archive HEAD sim run_check.sh known_findings.txt | tar -x -C "$S/verif-head"
    ROOT="$S/verif-head"
fi
set +e
unshare -m sh -c "mount --bind '$COPY' /repo && CARGO_TARGET_DIR='$S/mut-target' VERIF_OUT='$S/mut-out' '$ROOT/run_check.sh' '$PROP' '$TIER'"
rc=$?
rm -rf "$COPY"
exit $rc
