//! verif — deterministic simulation checks for OpenZeppelin/stellar-contracts.
//!
//!   verif check <property> [quick|thorough]     decide one property over all its worlds
//!   verif replay <file>                          re-execute a replay file (exit 1 = violation reproduced)
//!   verif digest <world> [quick|thorough]        print per-run digests (determinism self-test)
//!   verif list                                   property -> worlds table
mod checks;
mod core;
mod world;
use crate::core::*;

fn worlds() -> Vec<Box<dyn DynWorld>> {
    vec![
        Box::new(Erased(checks::fungible::Fungible)),
        Box::new(Erased(checks::spending::Spending)),
        Box::new(Erased(checks::nft_consecutive::NftConsecutive)),
        Box::new(Erased(checks::vault::VaultCheck)),
        Box::new(Erased(checks::smart_account::SmartAccount)),
        Box::new(Erased(checks::timelock::Timelock)),
        Box::new(Erased(checks::rwa::RwaCheck)),
        Box::new(Erased(checks::forwarder::Forwarder)),
        Box::new(Erased(checks::access::Access)),
        Box::new(Erased(checks::controller::Controller)),
        Box::new(Erased(checks::merkle::Merkle)),
        Box::new(Erased(checks::registries::Registries)),
        Box::new(Erased(checks::gates::Gates)),
        Box::new(Erased(checks::identity::Identity)),
        Box::new(Erased(checks::nft_enumerable::NftEnumerable)),
        Box::new(Erased(checks::thresholds::Thresholds)),
        Box::new(Erased(checks::irs::IrsCheck)),
        Box::new(Erased(checks::nft_votes::NftVotes)),
        Box::new(Erased(checks::merkle_indexed::MerkleIndexed)),
        Box::new(Erased(checks::rwa_real::RwaReal)),
        Box::new(Erased(checks::capped::Capped)),
        Box::new(Erased(checks::upgrade::Upgrade)),
        Box::new(Erased(checks::controller_ext::ControllerExt)),
        Box::new(Erased(checks::votes::VotesCheck)),
        Box::new(Erased(checks::handshake::Handshake)),
        Box::new(Erased(checks::merkle_voting::MerkleVote)),
        Box::new(Erased(checks::sac_admin::SacAdmin)),
    ]
}

/// property -> (world, share of that world's own run budget)
pub const TABLE: &[(&str, &[(&str, f64)])] = &[
    ("C01", &[("fungible", 1.0), ("vault", 0.5), ("rwa", 0.5)]),
    ("C02", &[("fungible", 1.0), ("vault", 0.5), ("rwa", 0.5)]),
    ("C03", &[("smart_account", 1.0)]),
    ("C04", &[("rwa", 1.0), ("rwa_real", 1.0), ("identity", 0.25)]),
    ("C05", &[("vault", 1.0)]),
    ("C06", &[("access", 1.0), ("handshake", 0.25), ("gates", 0.25), ("forwarder", 0.25), ("sac_admin", 1.0), ("controller_ext", 0.25)]),
    ("C07", &[("handshake", 1.0)]),
    ("C08", &[("timelock", 1.0), ("controller_ext", 1.0), ("controller", 0.25)]),
    ("C09", &[("controller", 1.0), ("controller_ext", 0.5)]),
    ("C10", &[("nft_consecutive", 1.0), ("nft_enumerable", 1.0)]),
    ("C11", &[("nft_consecutive", 1.0), ("nft_enumerable", 1.0)]),
    ("C13", &[("votes", 1.0), ("nft_votes", 1.0)]),
    ("C14", &[("spending", 1.0), ("thresholds", 1.0)]),
    ("C15", &[("identity", 1.0)]),
    ("C16", &[("gates", 1.0), ("upgrade", 1.0), ("capped", 1.0), ("fungible", 0.5), ("rwa", 0.25)]),
    ("C17", &[("merkle", 1.0), ("merkle_indexed", 1.0), ("merkle_voting", 1.0)]),
    ("C19", &[("forwarder", 1.0)]),
    ("C20", &[("registries", 1.0), ("irs", 1.0), ("smart_account", 0.5), ("rwa_real", 0.5), ("identity", 0.25)]),
];

fn main() {
    if std::env::var("VERIF_LOUD").is_err() {
        std::panic::set_hook(Box::new(|_| {}));
    }
    let args: Vec<String> = std::env::args().collect();
    let seed: u64 = std::env::var("VERIF_SEED").ok().and_then(|s| s.trim().parse().ok()).unwrap_or(1);
    let out = std::env::var("VERIF_OUT").unwrap_or_else(|_| verif_root());
    let tier = match args.get(3).map(|s| s.as_str()).or(std::env::var("VERIF_TIER").ok().as_deref()) {
        Some("thorough") => Tier::Thorough,
        _ => Tier::Quick,
    };
    let ws = worlds();
    let find = |name: &str| ws.iter().find(|w| w.name() == name).map(|b| b.as_ref());
    let code = match (args.get(1).map(|s| s.as_str()), args.get(2).map(|s| s.as_str())) {
        (Some("check"), Some(prop)) => match TABLE.iter().find(|(p, _)| *p == prop) {
            Some((_, list)) => {
                let sel: Vec<(&dyn DynWorld, f64)> = list.iter().map(|(n, share)| (find(n).expect("world registered"), *share)).collect();
                run_property(prop, tier, seed, &out, &sel)
            }
            None => {
                eprintln!("unknown or not-applicable property {prop}");
                2
            }
        },
        (Some("replay"), Some(p)) => {
            let txt = match std::fs::read_to_string(p) {
                Ok(t) => t,
                Err(e) => {
                    eprintln!("cannot read {p}: {e}");
                    std::process::exit(2)
                }
            };
            let v: serde_json::Value = serde_json::from_str(&txt).unwrap_or(serde_json::Value::Null);
            match v["world"].as_str().and_then(|w| find(w)) {
                Some(w) => w.replay(p),
                None => {
                    eprintln!("replay file names no known world");
                    2
                }
            }
        }
        (Some("digest"), Some(w)) => match find(w) {
            Some(w) => {
                let r = w.run("-", tier, seed, &out, 1.0);
                for (i, d) in r.per_run_digests.iter().enumerate() {
                    println!("D {} {} {:016x}", w.name(), i, d);
                }
                if r.exit == 2 {
                    2
                } else {
                    0
                }
            }
            None => 2,
        },
        (Some("list"), _) => {
            for (p, l) in TABLE {
                println!("{p}: {}", l.iter().map(|(n, s)| format!("{n}×{s}")).collect::<Vec<_>>().join(" "));
            }
            0
        }
        _ => {
            eprintln!("usage: verif check <property> [quick|thorough] | replay <file> | digest <world> [tier] | list");
            2
        }
    };
    std::process::exit(code);
}
