//! C07: admin / ownership changes hands only through a live two-step handshake.
//! Two flavours sampled per run: `Ownable` (trait defaults + #[only_owner]) and `AccessControl`
//! (transfer_admin_role / accept_admin_transfer / renounce_admin + #[only_admin]); both sit on
//! `role_transfer`. The ledger is configured with min_temp_entry_ttl = 1 as the property prescribes.

use crate::core::*;
use crate::world::{Base as W, Inv};
use serde::{Deserialize, Serialize};
#[allow(unused_imports)]
use soroban_sdk::{contract, contractimpl, Address, Env, IntoVal, Symbol, Val, Vec};
use soroban_sdk::Vec as SVec;
use stellar_access::access_control::{self as ac, AccessControl};
use stellar_access::ownable::{self, Ownable};
use stellar_macros::{only_admin, only_owner};

mod ownable_ex {
    #[path = "/repo/examples/ownable/src/contract.rs"]
    pub mod c;
}

#[contract]
pub struct Own;
#[contractimpl]
impl Own {
    pub fn __constructor(e: &Env, owner: Address) {
        ownable::set_owner(e, &owner);
    }
    #[only_owner]
    pub fn guarded(e: &Env) -> u32 {
        7
    }
}
#[contractimpl(contracttrait)]
impl Ownable for Own {}

#[contract]
pub struct Adm;
#[contractimpl]
impl Adm {
    pub fn __constructor(e: &Env, admin: Address) {
        ac::set_admin(e, &admin);
    }
    #[only_admin]
    pub fn guarded(e: &Env) -> u32 {
        7
    }
}
#[contractimpl(contracttrait)]
impl AccessControl for Adm {}

#[derive(Clone, Copy, Debug, Serialize, Deserialize, PartialEq)]
pub enum Deadline {
    /// literal 0 = cancel
    Cancel,
    /// now + k (k may be negative: already in the past)
    Rel(i64),
    /// max_live_until_ledger + k
    MaxPlus(i64),
}
impl Deadline {
    fn abs(self, now: u32, max_live: u32) -> u32 {
        match self {
            Deadline::Cancel => 0,
            Deadline::Rel(k) => (now as i64 + k).max(1) as u32,
            Deadline::MaxPlus(k) => (max_live as i64 + k) as u32,
        }
    }
}
#[derive(Clone, Debug, Serialize, Deserialize, PartialEq)]
pub enum Step {
    Offer { signer: Option<usize>, new: usize, live: Deadline },
    Accept { signer: Option<usize> },
    Renounce { signer: Option<usize> },
    Guarded { signer: Option<usize> },
    Advance { n: u32 },
}
#[derive(Clone, Copy, Debug, Serialize, Deserialize, PartialEq)]
pub enum Flavour {
    Ownable,
    AccessControl,
    /// examples/ownable compiled from source (`increment` is #[only_owner])
    OwnableExample,
}
#[derive(Clone, Debug, Serialize, Deserialize)]
pub struct Cfg {
    pub flavour: Flavour,
    pub actors: usize,
    pub start_ledger: u32,
    /// the ledger's minimum lifetime of a temporary entry: 1 (storage lifetime = requested lifetime, as the property
    /// prescribes) or the network default 16 (a shorter offer outlives its live_until_ledger, as the library documents)
    #[serde(default = "one")]
    pub min_ttl: u32,
}
fn one() -> u32 {
    1
}

const MAX_TTL: u32 = 6_311_999; // e.storage().max_ttl() under SDK defaults (asserted at run time)

#[derive(Clone, Debug)]
struct Model {
    holder: Option<usize>,
    pending: Option<(usize, u32)>,
    /// deadlines of every offer ever made (for targeted clock moves and probes)
    past_deadlines: std::vec::Vec<u32>,
    now: u32,
    min_ttl: u32,
}
impl Model {
    fn live(&self) -> Option<(usize, u32)> {
        self.pending.filter(|p| self.now <= p.1)
    }
    fn apply(&mut self, s: &Step) -> bool {
        match *s {
            Step::Advance { n } => {
                self.now += n;
                true
            }
            Step::Offer { signer, new, live } => {
                if self.holder.is_none() || signer != self.holder {
                    return false;
                }
                let l = live.abs(self.now, self.now + MAX_TTL);
                if l == 0 {
                    match self.live() {
                        Some((p, _)) if p == new => {
                            self.pending = None;
                            true
                        }
                        _ => false,
                    }
                } else {
                    if l < self.now || l > self.now + MAX_TTL {
                        return false;
                    }
                    // the entry lives to live_until, or for the ledger's minimum temporary lifetime if that is longer
                    let l = l.max(self.now + self.min_ttl - 1);
                    self.pending = Some((new, l));
                    self.past_deadlines.push(l);
                    true
                }
            }
            Step::Accept { signer } => match (self.live(), signer) {
                (Some((p, _)), Some(s)) if p == s => {
                    self.holder = Some(p);
                    self.pending = None;
                    true
                }
                _ => false,
            },
            Step::Renounce { signer } => {
                if self.holder.is_some() && signer == self.holder && self.live().is_none() {
                    self.holder = None;
                    true
                } else {
                    false
                }
            }
            Step::Guarded { signer } => self.holder.is_some() && signer == self.holder,
        }
    }
}

pub struct Handshake;

impl Check for Handshake {
    type Cfg = Cfg;
    type Step = Step;
    fn id(&self) -> &'static str {
        "handshake"
    }
    fn runs(&self, tier: Tier) -> u64 {
        if tier == Tier::Quick {
            40000
        } else {
            400000
        }
    }
    fn components(&self) -> serde_json::Value {
        serde_json::json!({"real": ["stellar_access::ownable::* (trait defaults, #[only_owner])", "examples/ownable (from source)", "stellar_access::access_control::{transfer_admin_role, accept_admin_transfer, renounce_admin, #[only_admin]}", "stellar_access::role_transfer::*", "soroban host: temporary storage TTL with min_temp_entry_ttl = 1, auth-tree matching"], "stub": ["Wallet (accept-all signature check)"]})
    }
    fn clock_step(&self, n: u32) -> Option<Step> {
        Some(Step::Advance { n })
    }
    fn property_of(&self, check: &str) -> std::vec::Vec<&'static str> {
        // the guarded-function clauses are shared with C06 (owner / admin only; nobody after renouncing)
        if check.starts_with("holder.keeps_control") || check == "fail.no_trace" {
            vec!["C06", "C07"]
        } else {
            vec!["C07"]
        }
    }
    fn dup_ok(&self, _s: &Step) -> bool {
        true
    }
    fn reorder_ok(&self) -> bool {
        true
    }
    fn probes(&self, _prop: &str) -> std::vec::Vec<&'static str> {
        vec!["probe.offer_replaced_by_shorter", "probe.accept_at_deadline", "probe.accept_one_past_deadline", "probe.accept_after_cancel", "probe.accept_replaced_pending", "probe.renounce_while_pending", "probe.accept_in_window_of_longer_earlier_offer"]
    }
    fn generate(&self, rng: &mut Rng, tier: Tier) -> (Cfg, std::vec::Vec<Step>) {
        let cfg = Cfg { flavour: *rng.pick(&[Flavour::Ownable, Flavour::AccessControl, Flavour::AccessControl, Flavour::OwnableExample]), actors: 3 + rng.below(3) as usize, start_ledger: 2 + rng.below(1_000_000) as u32, min_ttl: if rng.chance(60) { 1 } else { 16 } };
        let n = cfg.actors as u64;
        let nsteps = if tier == Tier::Quick { 10 + rng.below(30) } else { 10 + rng.below(50) } as usize;
        let mut m = Model { holder: Some(0), pending: None, past_deadlines: vec![], now: cfg.start_ledger, min_ttl: cfg.min_ttl };
        let fault = if rng.chance(25) { 0 } else { 5 + rng.below(25) };
        let mut steps = vec![];
        for _ in 0..nsteps {
            let any = |rng: &mut Rng| rng.below(n) as usize;
            let sign = |rng: &mut Rng, who: Option<usize>| {
                if rng.chance(fault) {
                    if rng.chance(40) {
                        None
                    } else {
                        Some(rng.below(n) as usize)
                    }
                } else {
                    who.or(Some(rng.below(n) as usize))
                }
            };
            let s = match rng.below(100) {
                0..=29 => {
                    let new = any(rng);
                    let live = match rng.below(12) {
                        0 => Deadline::Cancel,
                        1 => Deadline::Rel(-(1 + rng.below(3) as i64)),
                        2 => Deadline::Rel(0),
                        3 => Deadline::MaxPlus(0),
                        4 => Deadline::MaxPlus(1),
                        5 => Deadline::Rel(1),
                        6 => Deadline::Rel(100 + rng.below(100_000) as i64),
                        _ => Deadline::Rel(1 + rng.below(40) as i64),
                    };
                    let new = if live == Deadline::Cancel && rng.chance(80) { m.pending.map(|p| p.0).unwrap_or(new) } else { new };
                    Step::Offer { signer: sign(rng, m.holder), new, live }
                }
                30..=54 => {
                    let who = if rng.chance(80) { m.pending.map(|p| p.0) } else { Some(any(rng)) };
                    Step::Accept { signer: sign(rng, who) }
                }
                55..=61 => Step::Renounce { signer: sign(rng, m.holder) },
                62..=69 => Step::Guarded { signer: sign(rng, m.holder) },
                _ => {
                    // targeted clock: land on deadline-1, deadline, deadline+1 of the current and of every earlier offer
                    let targets: std::vec::Vec<u32> = m.past_deadlines.iter().copied().filter(|d| *d + 1 >= m.now && *d < m.now + 200_000).collect();
                    let nn = if !targets.is_empty() && rng.chance(60) {
                        let d = *rng.pick(&targets);
                        (d + rng.below(3) as u32).saturating_sub(1).saturating_sub(m.now)
                    } else {
                        match rng.below(10) {
                            0 => 0,
                            1 => 1000 + rng.below(100_000) as u32,
                            _ => 1 + rng.below(5) as u32,
                        }
                    };
                    Step::Advance { n: nn }
                }
            };
            m.apply(&s);
            steps.push(s);
        }
        (cfg, steps)
    }
    fn simplify(&self, s: &Step) -> std::vec::Vec<Step> {
        match s {
            Step::Advance { n } if *n > 0 => vec![Step::Advance { n: 0 }, Step::Advance { n: 1 }, Step::Advance { n: n / 2 }, Step::Advance { n: n - 1 }],
            Step::Offer { signer, new, live: Deadline::Rel(k) } if *k > 2 => vec![Step::Offer { signer: *signer, new: *new, live: Deadline::Rel(k / 2) }, Step::Offer { signer: *signer, new: *new, live: Deadline::Rel(k - 1) }],
            _ => vec![],
        }
    }
    fn execute(&self, cfg: &Cfg, steps: &[Step], st: &mut Stats) -> Result<(), Violation> {
        let w = W::new(cfg.actors, cfg.start_ledger, cfg.min_ttl);
        let e = &w.e;
        assert_eq!(e.storage().max_ttl(), MAX_TTL);
        let a = |i: usize| w.actors[i].clone();
        let own = cfg.flavour != Flavour::AccessControl;
        let id = match cfg.flavour {
            Flavour::Ownable => e.register(Own, (a(0),)),
            Flavour::AccessControl => e.register(Adm, (a(0),)),
            Flavour::OwnableExample => e.register(ownable_ex::c::ExampleContract, (a(0),)),
        };
        let f_guarded: &'static str = if cfg.flavour == Flavour::OwnableExample { "increment" } else { "guarded" };
        let (f_offer, f_accept, f_renounce, f_get) = if own { ("transfer_ownership", "accept_ownership", "renounce_ownership", "get_owner") } else { ("transfer_admin_role", "accept_admin_transfer", "renounce_admin", "get_admin") };
        let call = |f: &str, args: SVec<Val>| -> bool { e.try_invoke_contract::<Val, soroban_sdk::Error>(&id, &Symbol::new(e, f), args).map(|r| r.is_ok()).unwrap_or(false) };
        let one = |who: Option<usize>, f: &'static str, args: SVec<Val>| match who {
            Some(x) => w.set_auth(&[(x, Inv::new(&id, f, args))]),
            None => w.set_auth(&[]),
        };
        let mut m = Model { holder: Some(0), pending: None, past_deadlines: vec![], now: cfg.start_ledger, min_ttl: cfg.min_ttl };
        // history for probes: (account, deadline, how it ended)
        let mut longest_earlier: u32 = 0;
        for (i, s) in steps.iter().enumerate() {
            let before = w.storage_digest(&[&id]);
            let holder_before = m.holder;
            let live_before = m.live();
            let pend_before = m.pending;
            let (kind, got) = match s {
                Step::Advance { n } => {
                    w.advance(*n);
                    st.ledgers += *n as u64;
                    st.hit("clock.advance");
                    if *n > 1000 {
                        st.hit("clock.jump");
                    }
                    if let Some((_, d)) = m.pending {
                        if m.now <= d && m.now + n > d {
                            st.hit("clock.pending_offer_expired");
                        }
                        if m.now + n == d || m.now + n == d + 1 {
                            st.hit("clock.to_deadline");
                        }
                    }
                    ("advance", true)
                }
                Step::Offer { signer, new, live } => {
                    let l = live.abs(w.now(), e.ledger().max_live_until_ledger());
                    one(*signer, f_offer, (a(*new), l).into_val(e));
                    let ok = call(f_offer, (a(*new), l).into_val(e));
                    if ok && l != 0 {
                        if let Some((_, d)) = live_before {
                            if l < d {
                                st.hit("probe.offer_replaced_by_shorter");
                            }
                        }
                    }
                    (if l == 0 { "cancel" } else { "offer" }, ok)
                }
                Step::Accept { signer } => {
                    one(*signer, f_accept, ().into_val(e));
                    let ok = call(f_accept, ().into_val(e));
                    if let (Some((p, d)), Some(sg)) = (pend_before, signer) {
                        if p == *sg && m.now == d {
                            st.hit("probe.accept_at_deadline");
                        }
                        if p == *sg && m.now == d + 1 {
                            st.hit("probe.accept_one_past_deadline");
                        }
                        if p == *sg && m.now > d && m.now <= longest_earlier {
                            st.hit("probe.accept_in_window_of_longer_earlier_offer");
                        }
                    }
                    if pend_before.is_none() && signer.is_some() {
                        st.hit("probe.accept_after_cancel");
                    }
                    if let (Some((p, _)), Some(sg)) = (live_before, signer) {
                        if p != *sg {
                            st.hit("probe.accept_replaced_pending");
                        }
                    }
                    ("accept", ok)
                }
                Step::Renounce { signer } => {
                    one(*signer, f_renounce, ().into_val(e));
                    if live_before.is_some() && *signer == m.holder {
                        st.hit("probe.renounce_while_pending");
                    }
                    ("renounce", call(f_renounce, ().into_val(e)))
                }
                Step::Guarded { signer } => {
                    one(*signer, f_guarded, ().into_val(e));
                    ("guarded", call(f_guarded, ().into_val(e)))
                }
            };
            match s {
                Step::Offer { signer, .. } | Step::Accept { signer } | Step::Renounce { signer } | Step::Guarded { signer } => {
                    let honest = match s {
                        Step::Accept { .. } => pend_before.map(|p| p.0),
                        _ => holder_before,
                    };
                    if signer.is_none() {
                        st.hit("fault.auth_missing");
                    } else if *signer != honest {
                        st.hit("fault.auth_foreign");
                    }
                }
                _ => {}
            }
            let exp = m.apply(s);
            if let Step::Offer { .. } = s {
                if exp {
                    if let Some((_, d)) = pend_before {
                        longest_earlier = longest_earlier.max(d);
                    }
                }
            }
            if kind != "advance" {
                st.tx(kind, got);
            }
            if got != exp {
                let check = match (kind, got) {
                    ("accept", true) => {
                        if live_before.is_none() {
                            "accept.only_live_pending"
                        } else {
                            "accept.needs_pending_auth"
                        }
                    }
                    ("offer" | "cancel", true) => "offer.needs_holder_auth",
                    ("renounce", true) => {
                        if live_before.is_some() {
                            "renounce.refused_while_pending"
                        } else {
                            "renounce.needs_holder_auth"
                        }
                    }
                    ("guarded", true) => "holder.keeps_control_others_do_not",
                    ("guarded", false) => "holder.keeps_control_until_accept",
                    (_, true) => "refine.must_fail",
                    (_, false) => "live.valid_call_succeeds",
                };
                return Err(violation(check, kind, i, format!("{s:?}: real success={got}, model expected {exp}; now={} holder_before={holder_before:?} pending_before={pend_before:?} flavour={:?}", m.now, cfg.flavour)));
            }
            if !got && kind != "advance" && w.storage_digest(&[&id]) != before {
                return Err(violation("fail.no_trace", kind, i, format!("state changed by refused {s:?}")));
            }
            let real: Option<Address> = e.invoke_contract(&id, &Symbol::new(e, f_get), ().into_val(e));
            let real_idx = match real {
                None => None,
                Some(o) => match w.idx(&o) {
                    Some(x) => Some(x),
                    None => return Err(violation("holder.unchanged_until_accept", kind, i, format!("{f_get} names an address that is no party of this history"))),
                },
            };
            if real_idx != m.holder {
                let check = if kind == "accept" { "accept.only_live_pending" } else { "holder.unchanged_until_accept" };
                return Err(violation(check, kind, i, format!("{f_get} = {real_idx:?}, model {:?} after {s:?}", m.holder)));
            }
            st.state(&(cfg.flavour as u8, m.holder, m.pending.map(|p| (p.0, p.1.cmp(&m.now) as i8)), kind, got));
        }
        Ok(())
    }
}
