//! C16 (supply cap, library level): `check_cap` in front of a mint never lets the supply rise above the cap — also after
//! the cap was lowered below the current supply (which `set_cap` documents as allowed) and after burns brought it back.

use crate::core::*;
use crate::world::Base as W;
use serde::{Deserialize, Serialize};
use soroban_sdk::{contract, contractimpl, Address, Env};
use stellar_tokens::fungible::{capped::{check_cap, query_cap, set_cap}, Base};

#[contract]
pub struct CapTok;
#[contractimpl]
impl CapTok {
    pub fn __constructor(e: &Env, cap: i128) { set_cap(e, cap) }
    /// an integrator's owner-only setter, reduced to the library call
    pub fn set_cap(e: &Env, cap: i128) { set_cap(e, cap) }
    pub fn cap(e: &Env) -> i128 { query_cap(e) }
    pub fn mint(e: &Env, to: Address, amount: i128) { check_cap(e, amount); Base::mint(e, &to, amount) }
    pub fn burn(e: &Env, from: Address, amount: i128) { Base::update(e, Some(&from), None, amount) }
    pub fn total_supply(e: &Env) -> i128 { Base::total_supply(e) }
}

#[derive(Clone, Debug, Serialize, Deserialize)]
pub enum Step {
    Wait { n: u32 },
    Mint { to: usize, #[serde(with = "i128s")] amt: i128 },
    Burn { from: usize, #[serde(with = "i128s")] amt: i128 },
    SetCap { #[serde(with = "i128s")] cap: i128 },
}
#[derive(Clone, Debug, Serialize, Deserialize)]
pub struct Cfg { #[serde(with = "i128s")] pub cap: i128 }

pub struct Capped;
impl Check for Capped {
    type Cfg = Cfg;
    type Step = Step;
    fn id(&self) -> &'static str { "capped" }
    fn runs(&self, tier: Tier) -> u64 {
        if tier == Tier::Quick {
            3000
        } else {
            60000
        }
    }
    fn components(&self) -> serde_json::Value { serde_json::json!({"real": ["fungible::capped::{set_cap, query_cap, check_cap}", "fungible Base::{mint, update, total_supply}"], "stub": ["wrapper contract exposing set_cap after construction"]}) }
    fn clock_step(&self, n: u32) -> Option<Step> {
        Some(Step::Wait { n })
    }
    fn dup_ok(&self, _s: &Step) -> bool {
        true
    }
    fn reorder_ok(&self) -> bool {
        true
    }
    fn probes(&self, _prop: &str) -> std::vec::Vec<&'static str> {
        vec!["probe.mint_attempt_while_supply_above_cap", "probe.mint_to_exactly_the_cap", "probe.cap_lowered_below_supply"]
    }
    fn generate(&self, rng: &mut Rng, tier: Tier) -> (Cfg, std::vec::Vec<Step>) {
        let cfg = Cfg { cap: match rng.below(5) { 0 => 0, 1 => i128::MAX, _ => 1000 + rng.below(100_000) as i128 } };
        let (mut supply, mut cap) = (0i128, cfg.cap);
        let mut bal = [0i128; 3];
        let mut steps = vec![];
        for _ in 0..(if tier == Tier::Quick { 20 + rng.below(30) } else { 20 + rng.below(60) }) {
            let s = match rng.below(100) {
                0..=54 => {
                    let room = cap.saturating_sub(supply);
                    let amt = match rng.below(8) { 0 => room, 1 => room.saturating_add(1), 2 => room.saturating_sub(1).max(0), 3 => i128::MAX, 4 => 0, 5 => -1, 6 => (supply - cap).max(1), _ => 1 + rng.below(room.clamp(1, 5000) as u64) as i128 };
                    Step::Mint { to: rng.below(3) as usize, amt }
                }
                55..=74 => { let from = rng.below(3) as usize; Step::Burn { from, amt: match rng.below(4) { 0 => bal[from], 1 => bal[from].saturating_add(1), _ => 1 + rng.below(bal[from].clamp(1, 5000) as u64) as i128 } } }
                _ => Step::SetCap { cap: match rng.below(7) { 0 => 0, 1 => -1, 2 => supply, 3 => (supply - 1 - rng.below(50) as i128).max(0), 4 => supply.saturating_add(1), 5 => i128::MAX, _ => rng.below(200_000) as i128 } },
            };
            match &s {
                Step::Mint { to, amt } => if *amt >= 0 && supply.checked_add(*amt).map(|x| x <= cap).unwrap_or(false) { supply += amt; bal[*to] += amt; },
                Step::Burn { from, amt } => if *amt >= 0 && bal[*from] >= *amt { supply -= amt; bal[*from] -= amt; },
                Step::SetCap { cap: c } => if *c >= 0 { cap = *c; },
                Step::Wait { .. } => {}
            }
            steps.push(s);
        }
        (cfg, steps)
    }
    fn execute(&self, cfg: &Cfg, steps: &[Step], st: &mut Stats) -> Result<(), Violation> {
        let w = W::new(3, 100, 16);
        let e = &w.e;
        let a = |i: usize| w.actors[i].clone();
        let id = e.register(CapTok, (cfg.cap,));
        let c = CapTokClient::new(e, &id);
        let (mut supply, mut cap) = (0i128, cfg.cap);
        let mut bal = [0i128; 3];
        for (i, s) in steps.iter().enumerate() {
            let before = w.storage_digest(&[&id]);
            let (kind, got, exp) = match s {
                Step::Wait { n } => {
                    w.advance(*n);
                    st.ledgers += *n as u64;
                    st.hit("clock.advance");
                    continue;
                }
                Step::Mint { to, amt } => {
                    if supply > cap { st.hit("probe.mint_attempt_while_supply_above_cap"); }
                    let g = c.try_mint(&a(*to), amt).is_ok();
                    let x = *amt >= 0 && supply.checked_add(*amt).map(|x| x <= cap).unwrap_or(false);
                    if x { supply += amt; bal[*to] += amt; if supply == cap && *amt > 0 { st.hit("probe.mint_to_exactly_the_cap"); } }
                    ("mint", g, x)
                }
                Step::Burn { from, amt } => {
                    let g = c.try_burn(&a(*from), amt).is_ok();
                    let x = *amt >= 0 && bal[*from] >= *amt;
                    if x { supply -= amt; bal[*from] -= amt; }
                    ("burn", g, x)
                }
                Step::SetCap { cap: nc } => {
                    let g = c.try_set_cap(nc).is_ok();
                    let x = *nc >= 0;
                    if x { cap = *nc; if cap < supply { st.hit("probe.cap_lowered_below_supply"); } }
                    ("set_cap", g, x)
                }
            };
            st.tx(kind, got);
            if got != exp {
                let check = if kind == "mint" && got { "cap.never_exceeded" } else if got { "refine.must_fail" } else { "live.open_gate_succeeds" };
                return Err(violation(check, kind, i, format!("{s:?}: real {got} model {exp}; supply {supply} cap {cap}")));
            }
            if !got && w.storage_digest(&[&id]) != before {
                return Err(violation("fail.no_trace", kind, i, format!("state changed by refused {s:?}")));
            }
            let (ts, rc) = (c.total_supply(), c.cap());
            if ts != supply || rc != cap {
                return Err(violation("cap.never_exceeded", "state", i, format!("total_supply {ts} (model {supply}), cap {rc} (model {cap}) after {s:?}")));
            }
            st.state(&(kind, got, supply.cmp(&cap) as i8, supply == 0, cap == 0));
        }
        Ok(())
    }
}
