//! C08 (second world): the TimelockController example from source driving an external target:
//! schedule_op (proposer), execute_op (executor or anyone), cancel_op (canceller), update_delay (external admin).

use crate::core::*;
use crate::world::Base as W;
use serde::{Deserialize, Serialize};
use soroban_sdk::{contract, contractimpl, symbol_short, vec as svec, xdr::ToXdr, Address, Bytes, BytesN, Env, IntoVal, Symbol, Val, Vec};
use stellar_governance::timelock::{self as tl, Operation, OperationState};

mod ex {
    #[path = "/repo/examples/timelock-controller/src/contract.rs"]
    pub mod c;
}
use ex::c::{TimelockController, TimelockControllerClient};
use crate::world::Inv;
use soroban_sdk::Address as Addr;

#[contract]
pub struct Target2;
#[contractimpl]
impl Target2 {
    pub fn hit(e: &Env, v: u32) -> u32 {
        let k = (symbol_short!("n"), v);
        let n: u32 = e.storage().persistent().get(&k).unwrap_or(0);
        e.storage().persistent().set(&k, &(n + 1));
        if e.storage().instance().get(&symbol_short!("trap")).unwrap_or(false) {
            panic!("scripted target trap");
        }
        v
    }
    pub fn hits(e: &Env, v: u32) -> u32 {
        e.storage().persistent().get(&(symbol_short!("n"), v)).unwrap_or(0)
    }
    pub fn set_trap(e: &Env, on: bool) {
        e.storage().instance().set(&symbol_short!("trap"), &on);
    }
}

#[derive(Clone, Copy, Debug, Serialize, Deserialize, PartialEq)]
pub enum Pred {
    None,
    Op(usize),
    Unknown(u8),
}
#[derive(Clone, Copy, Debug, Serialize, Deserialize, PartialEq)]
pub enum Delay {
    Abs(u32),
    MinPlus(i64),
}
#[derive(Clone, Debug, Serialize, Deserialize)]
pub enum Step {
    Schedule { k: usize, delay: Delay, by: usize, signed: bool },
    /// anon: execute_op(…, executor = None) — nobody is named (allowed only while no executor is configured)
    Execute { k: usize, by: usize, signed: bool, #[serde(default)] anon: bool },
    Cancel { k: usize, by: usize, signed: bool },
    SetMinDelay { d: u32, by: usize, signed: bool },
    SetTrap { on: bool },
    Advance { n: u32 },
    /// the external admin (actor 0) grants / revokes one of the three roles (0 proposer, 1 canceller, 2 executor)
    Role { role: u8, account: usize, grant: bool, signed: bool },
}
#[derive(Clone, Debug, Serialize, Deserialize)]
pub struct Cfg {
    pub with_executors: bool,
    pub start_ledger: u32,
    pub min_delay: u32,
    pub ops: std::vec::Vec<(u8, Pred)>, // (salt, predecessor); arg = index
}

#[derive(Clone, Copy, Debug, PartialEq)]
enum S {
    Unset,
    Pending(u32),
    Done,
}
#[derive(Clone, Debug)]
struct Model {
    st: std::vec::Vec<S>,
    hits: std::vec::Vec<u32>,
    min: u32,
    now: u32,
    trap: bool,
    /// holders of the proposer / canceller / executor roles
    roles: [std::collections::BTreeSet<usize>; 3],
}
impl Model {
    fn delay(&self, d: Delay) -> u32 {
        match d {
            Delay::Abs(x) => x,
            Delay::MinPlus(k) => (self.min as i64 + k).clamp(0, u32::MAX as i64) as u32,
        }
    }
    fn apply(&mut self, s: &Step, cfg: &Cfg) -> bool {
        match *s {
            Step::Advance { n } => {
                self.now += n;
                true
            }
            Step::SetTrap { on } => {
                self.trap = on;
                true
            }
            Step::Role { role, account, grant, signed } => {
                if !signed {
                    return false;
                }
                let set = &mut self.roles[role as usize];
                if grant {
                    set.insert(account);
                    true
                } else {
                    set.remove(&account)
                }
            }
            Step::SetMinDelay { d, by, signed } => {
                if !signed || by != 0 {
                    return false;
                }
                self.min = d;
                true
            }
            Step::Schedule { k, delay, by, signed } => {
                let d = self.delay(delay);
                if !signed || !self.roles[0].contains(&by) || self.st[k] != S::Unset || d < self.min {
                    return false;
                }
                self.st[k] = S::Pending(self.now.saturating_add(d));
                true
            }
            Step::Execute { k, by, signed, anon } => {
                // whenever any executor is configured, the caller must name itself, hold the role and authorize
                if !self.roles[2].is_empty() && (anon || !signed || !self.roles[2].contains(&by)) {
                    return false;
                }
                let _ = cfg;
                let ready = matches!(self.st[k], S::Pending(r) if r <= self.now);
                let pred_ok = match cfg.ops[k].1 {
                    Pred::None => true,
                    Pred::Op(j) => self.st[j] == S::Done,
                    Pred::Unknown(_) => false,
                };
                if !ready || !pred_ok || self.trap {
                    return false;
                }
                self.st[k] = S::Done;
                self.hits[k] += 1;
                true
            }
            Step::Cancel { k, by, signed } => {
                if !signed || !self.roles[1].contains(&by) || !matches!(self.st[k], S::Pending(_)) {
                    return false;
                }
                self.st[k] = S::Unset;
                true
            }
        }
    }
}

pub struct ControllerExt;

impl Check for ControllerExt {
    type Cfg = Cfg;
    type Step = Step;
    fn id(&self) -> &'static str {
        "controller_ext"
    }
    fn runs(&self, tier: Tier) -> u64 {
        if tier == Tier::Quick {
            3000
        } else {
            60000
        }
    }
    fn components(&self) -> serde_json::Value {
        serde_json::json!({"real": ["examples/timelock-controller (from source): schedule_op, execute_op, cancel_op, update_delay, roles", "timelock storage", "access_control"], "stub": ["Target (call counter, scripted trap)", "Wallet"]})
    }
    fn property_of(&self, check: &str) -> std::vec::Vec<&'static str> {
        // who may schedule / cancel / execute is C09's clause (the controller example's roles); the rest is C08
        if check.starts_with("roles.") {
            vec!["C06", "C09"]
        } else if check == "fail.no_trace" || check.starts_with("live.") || check.starts_with("refine.") {
            vec!["C08", "C09"]
        } else {
            vec!["C08"]
        }
    }
    fn clock_step(&self, n: u32) -> Option<Step> {
        Some(Step::Advance { n })
    }
    fn dup_ok(&self, _s: &Step) -> bool {
        true
    }
    fn reorder_ok(&self) -> bool {
        true
    }
    fn generate(&self, rng: &mut Rng, tier: Tier) -> (Cfg, std::vec::Vec<Step>) {
        let nops = 3 + rng.below(5) as usize;
        let mut ops = vec![];
        for k in 0..nops {
            let pred = match rng.below(10) {
                0..=4 => Pred::None,
                5..=8 if k > 0 => Pred::Op(rng.below(k as u64) as usize),
                _ => Pred::Unknown(rng.below(3) as u8),
            };
            ops.push((rng.below(3) as u8, pred));
        }
        let cfg = Cfg { with_executors: rng.chance(60), start_ledger: 2 + rng.below(100_000) as u32, min_delay: match rng.below(4) { 0 => 0, 1 => 1, _ => 2 + rng.below(30) as u32 }, ops };
        let nsteps = if tier == Tier::Quick { 30 + rng.below(40) } else { 30 + rng.below(90) } as usize;
        let mut m = Model { st: vec![S::Unset; nops], hits: vec![0; nops], min: cfg.min_delay, now: cfg.start_ledger, trap: false, roles: [[1usize].into_iter().collect(), [1usize].into_iter().collect(), if cfg.with_executors { [2usize].into_iter().collect() } else { Default::default() }] };
        let mut steps = vec![];
        let role_changes = rng.chance(50);
        for _ in 0..nsteps {
            let k = rng.below(nops as u64) as usize;
            let s = match rng.below(100) {
                0..=24 => Step::Schedule { k, delay: match rng.below(8) { 0 => Delay::Abs(0), 1 => Delay::MinPlus(-1), 2 => Delay::MinPlus(0), 3 => Delay::MinPlus(1), 4 => Delay::Abs(u32::MAX), 5 => Delay::Abs(1_000_000), _ => Delay::MinPlus(rng.below(6) as i64) }, by: if rng.chance(85) { m.roles[0].iter().next().cloned().unwrap_or(1) } else { rng.below(4) as usize }, signed: !rng.chance(6) },
                25..=54 => {
                    // prefer ops that are pending
                    let pend: std::vec::Vec<usize> = (0..nops).filter(|i| matches!(m.st[*i], S::Pending(_))).collect();
                    Step::Execute { k: if !pend.is_empty() && rng.chance(80) { *rng.pick(&pend) } else { k }, by: if rng.chance(85) { m.roles[2].iter().next().cloned().unwrap_or(2) } else { rng.below(4) as usize }, signed: !rng.chance(8), anon: rng.chance(8) }
                }
                55..=62 => Step::Cancel { k, by: if rng.chance(70) { m.roles[1].iter().next().cloned().unwrap_or(1) } else if rng.chance(50) { m.roles[0].iter().next().cloned().unwrap_or(1) } else { rng.below(4) as usize }, signed: !rng.chance(8) },
                63..=68 => Step::SetMinDelay { d: match rng.below(4) { 0 => 0, 1 => u32::MAX, _ => rng.below(40) as u32 }, by: if rng.chance(85) { 0 } else { rng.below(4) as usize }, signed: !rng.chance(8) },
                69..=71 => Step::SetTrap { on: rng.chance(50) },
                72..=76 if role_changes => Step::Role { role: rng.below(3) as u8, account: 1 + rng.below(3) as usize, grant: rng.chance(55), signed: !rng.chance(8) },
                _ => {
                    let rs: std::vec::Vec<u32> = m.st.iter().filter_map(|s| if let S::Pending(r) = s { Some(*r) } else { None }).filter(|r| *r > m.now && *r < u32::MAX / 2).collect();
                    let n = if !rs.is_empty() && rng.chance(75) { (*rng.pick(&rs) + rng.below(2) as u32).saturating_sub(1).saturating_sub(m.now) } else { rng.below(4) as u32 };
                    Step::Advance { n }
                }
            };
            m.apply(&s, &cfg);
            steps.push(s);
        }
        (cfg, steps)
    }
    fn simplify(&self, s: &Step) -> std::vec::Vec<Step> {
        match s {
            Step::Advance { n } if *n > 1 => vec![Step::Advance { n: 1 }, Step::Advance { n: n / 2 }, Step::Advance { n: n - 1 }],
            _ => vec![],
        }
    }
    fn execute(&self, cfg: &Cfg, steps: &[Step], st: &mut Stats) -> Result<(), Violation> {
        let w = W::new(4, cfg.start_ledger, 16);
        let e = &w.e;
        let a = |i: usize| w.actors[i].clone();
        let execs: Vec<Addr> = if cfg.with_executors { svec![e, a(2)] } else { Vec::new(e) };
        let id = e.register(TimelockController, (cfg.min_delay, svec![e, a(1)], execs, Some(a(0))));
        let c = TimelockControllerClient::new(e, &id);
        let tgt = e.register(Target2, ());
        let tc = Target2Client::new(e, &tgt);
        let nops = cfg.ops.len();
        let zero = BytesN::<32>::from_array(e, &[0u8; 32]);
        // operations and their ids (ids of predecessors must exist first: ops only refer to smaller indices)
        let mut ops: std::vec::Vec<Operation> = vec![];
        let mut ids: std::vec::Vec<BytesN<32>> = vec![];
        for (k, (salt, pred)) in cfg.ops.iter().enumerate() {
            let predecessor = match pred {
                Pred::None => zero.clone(),
                Pred::Op(j) => ids[*j].clone(),
                Pred::Unknown(x) => BytesN::from_array(e, &[0xA0 + x; 32]),
            };
            let op = Operation { target: tgt.clone(), function: Symbol::new(e, "hit"), args: svec![e, (k as u32).into_val(e)], predecessor, salt: BytesN::from_array(e, &[*salt; 32]) };
            let hid = c.hash_operation(&op.target, &op.function, &op.args, &op.predecessor, &op.salt);
            // independent recomputation of the documented id
            let mut data = Bytes::new(e);
            data.append(&op.target.clone().to_xdr(e));
            data.append(&op.function.clone().to_xdr(e));
            data.append(&op.args.clone().to_xdr(e));
            data.append(&op.predecessor.clone().into());
            data.append(&op.salt.clone().into());
            let want: BytesN<32> = e.crypto().keccak256(&data).into();
            if hid != want {
                return Err(violation("id.deterministic_distinct", "hash", 0, format!("hash_operation of op {k} differs from keccak256 over its fields")));
            }
            if ids.contains(&hid) {
                return Err(violation("id.deterministic_distinct", "collision", 0, format!("op {k} has the id of an earlier, different op")));
            }
            ops.push(op);
            ids.push(hid);
        }
        let mut m = Model { st: vec![S::Unset; nops], hits: vec![0; nops], min: cfg.min_delay, now: cfg.start_ledger, trap: false, roles: [[1usize].into_iter().collect(), [1usize].into_iter().collect(), if cfg.with_executors { [2usize].into_iter().collect() } else { Default::default() }] };
        for (i, s) in steps.iter().enumerate() {
            w.set_auth(&[]);
            let before = w.storage_digest(&[&id, &tgt]);
            let (kind, got) = match s {
                Step::Advance { n } => {
                    w.advance(*n);
                    st.ledgers += *n as u64; st.hit("clock.advance"); if *n > 100_000 { st.hit("clock.jump"); }
                    ("advance", true)
                }
                Step::SetTrap { on } => {
                    tc.set_trap(on);
                    ("set_trap", true)
                }
                Step::Role { role, account, grant, signed } => {
                    let sym = Symbol::new(e, ["proposer", "canceller", "executor"][*role as usize]);
                    let f: &'static str = if *grant { "grant_role" } else { "revoke_role" };
                    let args: Vec<Val> = (a(*account), sym, a(0)).into_val(e);
                    if *signed { w.set_auth(&[(0, Inv::new(&id, f, args.clone()))]); }
                    st.hit("collab.role_set_changed");
                    ("role", e.try_invoke_contract::<Val, soroban_sdk::Error>(&id, &Symbol::new(e, f), args).map(|r| r.is_ok()).unwrap_or(false))
                }
                Step::SetMinDelay { d, by, signed } => {
                    if *signed { w.set_auth(&[(*by, Inv::new(&id, "update_delay", (*d,).into_val(e)))]); }
                    ("set_min_delay", c.try_update_delay(d).is_ok())
                }
                Step::Schedule { k, delay, by, signed } => {
                    let d = m.delay(*delay);
                    let o = &ops[*k];
                    if *signed { w.set_auth(&[(*by, Inv::new(&id, "schedule_op", (o.target.clone(), o.function.clone(), o.args.clone(), o.predecessor.clone(), o.salt.clone(), d, a(*by)).into_val(e)))]); }
                    let r = c.try_schedule_op(&o.target, &o.function, &o.args, &o.predecessor, &o.salt, &d, &a(*by));
                    if let Ok(Ok(rid)) = &r {
                        if *rid != ids[*k] {
                            return Err(violation("id.deterministic_distinct", "schedule", i, "schedule returned another id".into()));
                        }
                    }
                    ("schedule", r.is_ok())
                }
                Step::Execute { k, by, signed, anon } => {
                    let o = &ops[*k];
                    let ex = if !*anon && (!m.roles[2].is_empty() || *signed) { Some(a(*by)) } else { None };
                    if *anon && !m.roles[2].is_empty() { st.hit("probe.execute_naming_nobody_while_executors_exist"); }
                    if *signed { w.set_auth(&[(*by, Inv::new(&id, "execute_op", (o.target.clone(), o.function.clone(), o.args.clone(), o.predecessor.clone(), o.salt.clone(), ex.clone()).into_val(e)))]); }
                    ("execute", c.try_execute_op(&o.target, &o.function, &o.args, &o.predecessor, &o.salt, &ex).is_ok())
                }
                Step::Cancel { k, by, signed } => {
                    if *signed { w.set_auth(&[(*by, Inv::new(&id, "cancel_op", (ids[*k].clone(), a(*by)).into_val(e)))]); }
                    ("cancel", c.try_cancel_op(&ids[*k], &a(*by)).is_ok())
                }
            };
            let snap_roles = m.roles.clone();
            let exp = m.apply(s, cfg);
            if !matches!(s, Step::Advance { .. } | Step::SetTrap { .. }) {
                st.tx(kind, got);
                if !got && w.storage_digest(&[&id, &tgt]) != before {
                    return Err(violation("fail.no_trace", kind, i, format!("state changed by refused {s:?}")));
                }
                if !got && m.trap && matches!(s, Step::Execute { .. }) {
                    st.hit("fault.target_trap");
                }
            }
            if got != exp {
                // role / authorization reasons first (C09: scheduling needs the proposer, cancelling the canceller,
                // executing - whenever executors are configured - the executor, each with that account's authorization)
                let role_reason = match *s {
                    Step::Schedule { by, signed, .. } => !signed || !snap_roles[0].contains(&by),
                    Step::Cancel { by, signed, .. } => !signed || !snap_roles[1].contains(&by),
                    Step::Execute { by, signed, anon, .. } => !snap_roles[2].is_empty() && (anon || !signed || !snap_roles[2].contains(&by)),
                    Step::Role { signed, .. } => !signed,
                    Step::SetMinDelay { by, signed, .. } => !signed || by != 0,
                    _ => false,
                };
                let check = match (kind, got) {
                    (_, true) if role_reason => "roles.schedule_cancel_execute",
                    ("execute", true) => "exec.needs_ready_and_done_predecessor",
                    ("schedule", true) => "sched.min_delay_no_reschedule",
                    ("cancel", true) => "cancel.pending_only",
                    (_, true) => "refine.must_fail",
                    (_, false) => "live.must_succeed",
                };
                return Err(violation(check, kind, i, format!("{s:?}: real {got}, model {exp}; now {} model {m:?}", w.now())));
            }
            // every id, every getter
            for k in 0..nops {
                let want = match m.st[k] {
                    S::Unset => (OperationState::Unset, 0u32),
                    S::Done => (OperationState::Done, 1),
                    S::Pending(r) => (if r > m.now { OperationState::Waiting } else { OperationState::Ready }, r),
                };
                let (rs, rl) = (c.get_operation_state(&ids[k]), c.get_operation_ledger(&ids[k]));
                if (rs, rl) != want {
                    return Err(violation("state.model_eq", kind, i, format!("op {k}: state {rs:?} ledger {rl}, model {want:?} now {}", m.now)));
                }
                let f = (c.operation_exists(&ids[k]), c.is_operation_pending(&ids[k]), c.is_operation_ready(&ids[k]), c.is_operation_done(&ids[k]));
                let wf = (want.0 != OperationState::Unset, matches!(want.0, OperationState::Waiting | OperationState::Ready), want.0 == OperationState::Ready, want.0 == OperationState::Done);
                if f != wf {
                    return Err(violation("state.model_eq", "flags", i, format!("op {k}: flags {f:?} model {wf:?}")));
                }
                let h = tc.hits(&(k as u32));
                if h != m.hits[k] {
                    return Err(violation("exec.target_called_once", kind, i, format!("target saw op {k} {h} times, model {}", m.hits[k])));
                }
            }
            if c.get_min_delay() != m.min {
                return Err(violation("state.model_eq", "min_delay", i, "min delay".into()));
            }
            st.state(&(m.st.iter().map(|x| match x { S::Unset => 0u8, S::Done => 3, S::Pending(r) => if *r > m.now { 1 } else { 2 } }).collect::<std::vec::Vec<_>>(), m.trap));
        }
        Ok(())
    }
}
