//! C16 (migration flag): migrate succeeds exactly once after each upgrade and never without one.

use crate::core::*;
use crate::world::{Base as W, Inv};
use serde::{Deserialize, Serialize};
use soroban_sdk::{contract, contractimpl, contracttype, symbol_short, Address, Env, IntoVal};
use stellar_contract_utils::upgradeable::{can_complete_migration, enable_migration, UpgradeableMigratableInternal};
use stellar_macros::UpgradeableMigratable;

#[contracttype]
pub struct MigData { pub x: u32 }
#[derive(UpgradeableMigratable)]
#[contract]
pub struct Up;
impl UpgradeableMigratableInternal for Up {
    type MigrationData = MigData;
    fn _migrate(e: &Env, d: &MigData) { let n: u32 = e.storage().instance().get(&symbol_short!("n")).unwrap_or(0); e.storage().instance().set(&symbol_short!("n"), &(n + 1)); e.storage().instance().set(&symbol_short!("x"), &d.x); }
    fn _require_auth(e: &Env, op: &Address) { let owner: Address = e.storage().instance().get(&symbol_short!("owner")).unwrap(); if *op != owner { panic!("not owner") } op.require_auth(); }
}
#[contractimpl]
impl Up {
    pub fn __constructor(e: &Env, owner: Address) { e.storage().instance().set(&symbol_short!("owner"), &owner); }
    /// what the derive-generated `upgrade` does, minus the executable swap (a swapped native contract is no longer dispatched natively)
    pub fn sim_upgrade(e: &Env, operator: Address) { <Up as UpgradeableMigratableInternal>::_require_auth(e, &operator); enable_migration(e); }
    pub fn migrations(e: &Env) -> u32 { e.storage().instance().get(&symbol_short!("n")).unwrap_or(0) }
}

#[derive(Clone, Debug, Serialize, Deserialize)]
pub enum Step { Wait { n: u32 }, Upgrade { op: usize, signed: bool }, Migrate { op: usize, signed: bool, x: u32 }, RealUpgradeAtEnd { op: usize, signed: bool } }
#[derive(Clone, Debug, Serialize, Deserialize)]
pub struct Cfg {}
pub struct Upgrade;
impl Check for Upgrade {
    type Cfg = Cfg;
    type Step = Step;
    fn id(&self) -> &'static str { "upgrade" }
    fn runs(&self, tier: Tier) -> u64 {
        if tier == Tier::Quick {
            3000
        } else {
            30000
        }
    }
    fn components(&self) -> serde_json::Value { serde_json::json!({"real": ["derive(UpgradeableMigratable): generated migrate and (last step) upgrade", "upgradeable::storage flags"], "stub": ["sim_upgrade = generated upgrade minus executable swap", "uploaded testdata wasm only as the target hash of the final real upgrade"]}) }
    fn generate(&self, rng: &mut Rng, _tier: Tier) -> (Cfg, std::vec::Vec<Step>) {
        let mut steps = vec![];
        for _ in 0..(5 + rng.below(25)) {
            let op = if rng.chance(85) { 0 } else { 1 };
            steps.push(if rng.chance(40) { Step::Upgrade { op, signed: !rng.chance(10) } } else { Step::Migrate { op, signed: !rng.chance(10), x: rng.below(100) as u32 } });
        }
        steps.push(Step::RealUpgradeAtEnd { op: if rng.chance(80) { 0 } else { 1 }, signed: !rng.chance(15) });
        (Cfg {}, steps)
    }
    fn clock_step(&self, n: u32) -> Option<Step> {
        Some(Step::Wait { n })
    }
    fn probes(&self, _prop: &str) -> std::vec::Vec<&'static str> {
        vec!["probe.real_upgrade_executed"]
    }
    fn execute(&self, _cfg: &Cfg, steps: &[Step], st: &mut Stats) -> Result<(), Violation> {
        let w = W::new(2, 100, 16);
        let e = &w.e;
        let a = |i: usize| w.actors[i].clone();
        let id = e.register(Up, (a(0),));
        let c = UpClient::new(e, &id);
        let (mut flag, mut count) = (false, 0u32);
        for (i, s) in steps.iter().enumerate() {
            if let Step::Wait { n } = s {
                w.advance(*n);
                st.ledgers += *n as u64;
                st.hit("clock.advance");
                continue;
            }
            match s {
                Step::Wait { .. } => unreachable!("handled above"),
                Step::Upgrade { op, signed } => {
                    if *signed { w.set_auth(&[(*op, Inv::new(&id, "sim_upgrade", (a(*op),).into_val(e)))]) } else { w.set_auth(&[]) }
                    let g = c.try_sim_upgrade(&a(*op)).is_ok();
                    let x = *signed && *op == 0;
                    if g != x { return Err(violation("upgrade.needs_operator_auth", "upgrade", i, format!("{s:?}: {g} vs {x}"))); }
                    if x { flag = true; }
                }
                Step::Migrate { op, signed, x: val } => {
                    if *signed { w.set_auth(&[(*op, Inv::new(&id, "migrate", (MigData { x: *val }, a(*op)).into_val(e)))]) } else { w.set_auth(&[]) }
                    let g = c.try_migrate(&MigData { x: *val }, &a(*op)).is_ok();
                    let x = *signed && *op == 0 && flag;
                    st.tx("migrate", g);
                    if g != x { return Err(violation("migrate.once_per_upgrade", "migrate", i, format!("{s:?}: real {g} model {x}; flag {flag}"))); }
                    if x { flag = false; count += 1; }
                }
                Step::RealUpgradeAtEnd { op, signed } => {
                    let wasm = std::fs::read("/repo/examples/upgradeable/testdata/upgradeable_v2_example.wasm").expect("testdata wasm");
                    let h = e.deployer().upload_contract_wasm(wasm.as_slice());
                    if *signed { w.set_auth(&[(*op, Inv::new(&id, "upgrade", (h.clone(), a(*op)).into_val(e)))]) } else { w.set_auth(&[]) }
                    let g = c.try_upgrade(&h, &a(*op)).is_ok();
                    let x = *signed && *op == 0;
                    if g != x { return Err(violation("upgrade.needs_operator_auth", "real_upgrade", i, format!("{s:?}: {g} vs {x}"))); }
                    if x { flag = true; }
                    let real = e.as_contract(&id, || can_complete_migration(e));
                    if real != flag { return Err(violation("migrate.once_per_upgrade", "flag_after_real_upgrade", i, format!("flag {real}, model {flag}"))); }
                    st.hit("probe.real_upgrade_executed");
                    return Ok(());
                }
            }
            if e.as_contract(&id, || can_complete_migration(e)) != flag || c.migrations() != count { return Err(violation("migrate.once_per_upgrade", "state", i, format!("flag/count differ after {s:?}"))); }
            st.state(&(flag, count.min(5), std::mem::discriminant(s)));
        }
        Ok(())
    }
}
