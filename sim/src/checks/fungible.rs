//! C01 + C02 on four fungible flavours (Base, AllowList, BlockList, Votes): conservation, events,
//! authorization sets, allowances, list gates.

use crate::core::*;
use crate::world::{Base as W, Inv};
use serde::{Deserialize, Serialize};
#[allow(unused_imports)]
use soroban_sdk::{contract, contractimpl, testutils::Events as _, xdr, Address, Env, IntoVal, MuxedAddress};
#[allow(unused_imports)]
use soroban_sdk::String as SString;
use std::collections::{BTreeMap, BTreeSet};
use stellar_tokens::fungible::{burnable::FungibleBurnable, Base, FungibleToken};
use crate::checks::gates::{AllowTok, BlockTok};
use crate::checks::votes::VTok;
use soroban_sdk::{Symbol, Val, Vec as SVec};

#[contract]
pub struct Tok;
#[contractimpl]
impl Tok {
    pub fn mint(e: &Env, to: Address, amount: i128) {
        Base::mint(e, &to, amount);
    }
}
#[contractimpl(contracttrait)]
impl FungibleToken for Tok {
    type ContractType = Base;
}
#[contractimpl(contracttrait)]
impl FungibleBurnable for Tok {}

#[derive(Clone, Copy, Debug, Serialize, Deserialize, PartialEq)]
pub enum Deadline {
    Rel(i64),
    MaxPlus(i64),
}
impl Deadline {
    fn abs(self, now: u32, max_live: u32) -> u32 {
        match self {
            Deadline::Rel(k) => (now as i64 + k).max(0) as u32,
            Deadline::MaxPlus(k) => (max_live as i64 + k) as u32,
        }
    }
}

#[derive(Clone, Debug, Serialize, Deserialize)]
pub enum Op {
    Mint { to: usize, #[serde(with = "i128s")] amt: i128 },
    Transfer { from: usize, to: usize, #[serde(with = "i128s")] amt: i128 },
    TransferFrom { spender: usize, from: usize, to: usize, #[serde(with = "i128s")] amt: i128 },
    Burn { from: usize, #[serde(with = "i128s")] amt: i128 },
    BurnFrom { spender: usize, from: usize, #[serde(with = "i128s")] amt: i128 },
    Approve { owner: usize, spender: usize, #[serde(with = "i128s")] amt: i128, live: Deadline },
}
#[derive(Clone, Copy, Debug, Serialize, Deserialize, PartialEq)]
pub enum Signer {
    Honest,
    Nobody,
    Other(usize),
    WrongArgs,
}
#[derive(Clone, Debug, Serialize, Deserialize)]
pub enum Step {
    List { user: usize, on: bool },
    Tx { op: Op, signer: Signer },
    Advance { n: u32 },
}
#[derive(Clone, Copy, Debug, Serialize, Deserialize, PartialEq)]
pub enum Flavour { Base, Allow, Block, Votes }
#[derive(Clone, Debug, Serialize, Deserialize)]
pub struct Cfg {
    pub flavour: Flavour,
    pub actors: usize,
    pub start_ledger: u32,
    pub min_temp_ttl: u32,
}

const MAX_TTL: u32 = 6_311_999; // e.storage().max_ttl() under SDK defaults (asserted at run time)

#[derive(Clone, Debug, Default)]
struct Model {
    bal: BTreeMap<usize, i128>,
    supply: i128,
    allow: BTreeMap<(usize, usize), (i128, u32)>,
    now: u32,
    listed: BTreeSet<usize>,
    flavour: Option<Flavour>,
}
impl Model {
    fn b(&self, a: usize) -> i128 {
        *self.bal.get(&a).unwrap_or(&0)
    }
    fn allowance(&self, o: usize, s: usize) -> i128 {
        match self.allow.get(&(o, s)) {
            Some((a, l)) if *l >= self.now => *a,
            _ => 0,
        }
    }
    fn vet(&self, a: usize) -> bool {
        match self.flavour {
            Some(Flavour::Allow) => self.listed.contains(&a),
            Some(Flavour::Block) => !self.listed.contains(&a),
            _ => true,
        }
    }
    fn gate(&self, op: &Op) -> bool {
        match *op {
            Op::Mint { .. } => true,
            Op::Transfer { from, to, .. } | Op::TransferFrom { from, to, .. } => self.vet(from) && self.vet(to),
            Op::Burn { from, .. } | Op::BurnFrom { from, .. } => self.vet(from),
            Op::Approve { owner, .. } => self.vet(owner),
        }
    }
    fn principal(op: &Op) -> Option<usize> {
        match *op {
            Op::Mint { .. } => None,
            Op::Transfer { from, .. } | Op::Burn { from, .. } => Some(from),
            Op::TransferFrom { spender, .. } | Op::BurnFrom { spender, .. } => Some(spender),
            Op::Approve { owner, .. } => Some(owner),
        }
    }
    fn authorised(op: &Op, signer: Signer) -> bool {
        match (Self::principal(op), signer) {
            (None, _) => true,
            (Some(_), Signer::Honest) => true,
            (Some(p), Signer::Other(o)) => o == p,
            _ => false,
        }
    }
    fn mv(&mut self, from: Option<usize>, to: Option<usize>, amt: i128) -> bool {
        if amt < 0 {
            return false;
        }
        match from {
            Some(f) => {
                if self.b(f) < amt {
                    return false;
                }
            }
            None => {
                if self.supply.checked_add(amt).is_none() {
                    return false;
                }
            }
        }
        if let Some(f) = from {
            *self.bal.entry(f).or_insert(0) -= amt;
        } else {
            self.supply += amt;
        }
        if let Some(t) = to {
            *self.bal.entry(t).or_insert(0) += amt;
        } else {
            self.supply -= amt;
        }
        true
    }
    fn spend(&mut self, o: usize, s: usize, amt: i128) -> bool {
        if amt < 0 || self.allowance(o, s) < amt {
            return false;
        }
        if amt > 0 {
            let e = self.allow.get_mut(&(o, s)).unwrap();
            e.0 -= amt;
        }
        true
    }
    /// expected success; mutates on success only
    fn apply(&mut self, op: &Op, signer: Signer) -> bool {
        if !Self::authorised(op, signer) || !self.gate(op) {
            return false;
        }
        let snapshot = self.clone();
        let ok = match *op {
            Op::Mint { to, amt } => self.mv(None, Some(to), amt),
            Op::Transfer { from, to, amt } => self.mv(Some(from), Some(to), amt),
            Op::Burn { from, amt } => self.mv(Some(from), None, amt),
            Op::TransferFrom { spender, from, to, amt } => self.spend(from, spender, amt) && self.mv(Some(from), Some(to), amt),
            Op::BurnFrom { spender, from, amt } => self.spend(from, spender, amt) && self.mv(Some(from), None, amt),
            Op::Approve { owner, spender, amt, live } => {
                let l = live.abs(self.now, self.now + MAX_TTL);
                if amt < 0 || l > self.now + MAX_TTL || (amt > 0 && l < self.now) {
                    false
                } else {
                    self.allow.insert((owner, spender), (amt, l));
                    true
                }
            }
        };
        if !ok {
            *self = snapshot;
        }
        ok
    }
}

pub struct Fungible;

fn amount(rng: &mut Rng, m: &Model, who: usize, allow: i128) -> i128 {
    let b = m.b(who);
    match rng.below(16) {
        0 => -1 - (rng.amount_bits() >> 1),
        1 => 0,
        2 => 1,
        3 => b,
        4 => b.saturating_add(1),
        5 => (b - 1).max(0),
        6 => allow,
        7 => allow.saturating_add(1),
        8 => i128::MAX,
        9 => i128::MAX - m.supply,
        10 => (i128::MAX - m.supply).saturating_add(1),
        11 => rng.amount_bits(),
        _ => {
            if b > 0 {
                1 + (rng.next() as i128 % b.min(1_000_000)).abs()
            } else {
                rng.below(100) as i128
            }
        }
    }
}

impl Check for Fungible {
    type Cfg = Cfg;
    type Step = Step;
    fn id(&self) -> &'static str {
        "fungible"
    }
    fn runs(&self, tier: Tier) -> u64 {
        if tier == Tier::Quick {
            3000
        } else {
            60000
        }
    }
    fn components(&self) -> serde_json::Value {
        serde_json::json!({"real": ["stellar_tokens::fungible::{Base::*, burnable}", "soroban host (storage, auth, TTL)"], "stub": ["Wallet (accept-all signature check; invocation-tree matching stays real)"]})
    }
    fn clock_step(&self, n: u32) -> Option<Step> {
        Some(Step::Advance { n })
    }
    fn dup_ok(&self, _s: &Step) -> bool {
        true
    }
    fn reorder_ok(&self) -> bool {
        true
    }
    fn property_of(&self, check: &str) -> std::vec::Vec<&'static str> {
        if check.starts_with("conserve.") || check.starts_with("events.") || check == "fail.no_trace" {
            vec!["C01"]
        } else if check.starts_with("auth.") || check.starts_with("allowance.") {
            vec!["C02"]
        } else if check.starts_with("gate.") {
            vec!["C16"]
        } else {
            vec![]
        }
    }
    fn generate(&self, rng: &mut Rng, tier: Tier) -> (Cfg, Vec<Step>) {
        let cfg = Cfg { flavour: *rng.pick(&[Flavour::Base, Flavour::Allow, Flavour::Block, Flavour::Votes]), actors: 3 + rng.below(3) as usize, start_ledger: 1 + rng.below(1_000_000) as u32, min_temp_ttl: if rng.chance(50) { 1 } else { 16 } };
        let n = cfg.actors;
        let nsteps = if tier == Tier::Quick { 20 + rng.below(40) } else { 20 + rng.below(80) } as usize;
        let mut m = Model { now: cfg.start_ledger, flavour: Some(cfg.flavour), ..Default::default() };
        // swarm: per-run weights
        let w = [8 + rng.below(8) as u32, 10 + rng.below(20) as u32, 10 + rng.below(20) as u32, 4 + rng.below(8) as u32, 4 + rng.below(8) as u32, 10 + rng.below(15) as u32, 8 + rng.below(12) as u32];
        let fault_pct = if rng.chance(25) { 0 } else { 5 + rng.below(25) };
        let mut steps = vec![];
        for _ in 0..nsteps {
            let any = |rng: &mut Rng| rng.below(n as u64) as usize;
            let holder = |rng: &mut Rng, m: &Model| {
                let hs: Vec<usize> = (0..n).filter(|a| m.b(*a) > 0).collect();
                if hs.is_empty() || rng.chance(15) {
                    rng.below(n as u64) as usize
                } else {
                    *rng.pick(&hs)
                }
            };
            let pair = |rng: &mut Rng, m: &Model| {
                let ps: Vec<(usize, usize)> = m.allow.iter().filter(|(_, v)| v.0 > 0).map(|(k, _)| *k).collect();
                if ps.is_empty() || rng.chance(20) {
                    (rng.below(n as u64) as usize, rng.below(n as u64) as usize)
                } else {
                    *rng.pick(&ps)
                }
            };
            if matches!(cfg.flavour, Flavour::Allow | Flavour::Block) && rng.chance(if cfg.flavour == Flavour::Allow { 18 } else { 8 }) {
                let st = Step::List { user: any(rng), on: rng.chance(if cfg.flavour == Flavour::Allow { 75 } else { 50 }) };
                if let Step::List { user, on } = &st { if *on { m.listed.insert(*user); } else { m.listed.remove(user); } }
                steps.push(st);
                continue;
            }
            let step = match rng.weighted(&w) {
                0 => {
                    let to = any(rng);
                    let amt = match rng.below(8) {
                        0 => amount(rng, &m, to, 0),
                        _ => 1 + rng.below(1_000_000) as i128,
                    };
                    Step::Tx { op: Op::Mint { to, amt }, signer: Signer::Honest }
                }
                1 => {
                    let from = holder(rng, &m);
                    let to = if rng.chance(10) { from } else { any(rng) };
                    Step::Tx { op: Op::Transfer { from, to, amt: amount(rng, &m, from, 0) }, signer: Signer::Honest }
                }
                2 => {
                    let (from, spender) = pair(rng, &m);
                    let to = any(rng);
                    let a = m.allowance(from, spender);
                    Step::Tx { op: Op::TransferFrom { spender, from, to, amt: amount(rng, &m, from, a) }, signer: Signer::Honest }
                }
                3 => {
                    let from = holder(rng, &m);
                    Step::Tx { op: Op::Burn { from, amt: amount(rng, &m, from, 0) }, signer: Signer::Honest }
                }
                4 => {
                    let (from, spender) = pair(rng, &m);
                    let a = m.allowance(from, spender);
                    Step::Tx { op: Op::BurnFrom { spender, from, amt: amount(rng, &m, from, a) }, signer: Signer::Honest }
                }
                5 => {
                    // a fifth of the approvals replace a live allowance: same owner and spender, often the very same amount,
                    // with another (usually earlier) deadline — the new deadline must be the one that counts
                    let livep: Vec<(usize, usize)> = m.allow.iter().filter(|(_, v)| v.0 > 0 && v.1 >= m.now).map(|(k, _)| *k).collect();
                    let re = if !livep.is_empty() && rng.chance(20) { Some(*rng.pick(&livep)) } else { None };
                    let owner = re.map(|x| x.0).unwrap_or_else(|| holder(rng, &m));
                    let spender = re.map(|x| x.1).unwrap_or_else(|| any(rng));
                    let live = match rng.below(12) {
                        0 => Deadline::Rel(-(1 + rng.below(5) as i64)),
                        1 => Deadline::Rel(0),
                        2 => Deadline::MaxPlus(0),
                        3 => Deadline::MaxPlus(1),
                        4 => Deadline::Rel(1),
                        _ => Deadline::Rel(1 + rng.below(60) as i64),
                    };
                    let amt = match rng.below(6) {
                        _ if re.is_some() && rng.chance(60) => m.allowance(owner, spender),
                        0 => 0,
                        1 => amount(rng, &m, owner, 0),
                        _ => 1 + rng.below(2_000_000) as i128,
                    };
                    let live = if re.is_some() && rng.chance(50) { Deadline::Rel(rng.below(4) as i64) } else { live };
                    Step::Tx { op: Op::Approve { owner, spender, amt, live }, signer: Signer::Honest }
                }
                _ => {
                    // targeted clock
                    let ds: Vec<u32> = m.allow.values().filter(|v| v.0 > 0 && v.1 >= m.now).map(|v| v.1).collect();
                    let n = if !ds.is_empty() && rng.chance(60) {
                        let d = *rng.pick(&ds);
                        (d + rng.below(3) as u32).saturating_sub(1).saturating_sub(m.now)
                    } else {
                        match rng.below(10) {
                            0 => 0,
                            1 => 100_000 + rng.below(7_000_000) as u32,
                            _ => 1 + rng.below(6) as u32,
                        }
                    };
                    Step::Advance { n }
                }
            };
            // fault: authorization set
            let step = match step {
                Step::Tx { op, .. } if Model::principal(&op).is_some() && rng.chance(fault_pct) => {
                    let signer = match rng.below(3) {
                        0 => Signer::Nobody,
                        1 => Signer::Other(any(rng)),
                        _ => Signer::WrongArgs,
                    };
                    Step::Tx { op, signer }
                }
                s => s,
            };
            match &step {
                Step::Tx { op, signer } => {
                    m.apply(op, *signer);
                }
                Step::Advance { n } => m.now += n,
                Step::List { .. } => {}
            }
            steps.push(step);
        }
        (cfg, steps)
    }

    fn simplify(&self, s: &Step) -> Vec<Step> {
        match s {
            Step::Advance { n } if *n > 0 => vec![Step::Advance { n: 0 }, Step::Advance { n: 1 }, Step::Advance { n: n / 2 }],
            Step::Tx { op, signer } if *signer != Signer::Honest => vec![Step::Tx { op: op.clone(), signer: Signer::Honest }],
            _ => vec![],
        }
    }

    fn execute(&self, cfg: &Cfg, steps: &[Step], st: &mut Stats) -> Result<(), Violation> {
        let w = W::new(cfg.actors, cfg.start_ledger, cfg.min_temp_ttl);
        let e = &w.e;
        assert_eq!(e.storage().max_ttl(), MAX_TTL);
        let id = match cfg.flavour {
            Flavour::Base => e.register(Tok, ()),
            Flavour::Allow => e.register(AllowTok, ()),
            Flavour::Block => e.register(BlockTok, ()),
            Flavour::Votes => e.register(VTok, ()),
        };
        let call = |f: &str, args: SVec<Val>| -> bool { let r = e.try_invoke_contract::<Val, soroban_sdk::Error>(&id, &Symbol::new(e, f), args); if std::env::var("VERIF_LOUD").is_ok() { eprintln!("call {f}: {:?}", r.as_ref().map(|x| x.is_ok())); } r.map(|r| r.is_ok()).unwrap_or(false) };
        let qi = |f: &str, args: SVec<Val>| -> i128 { e.invoke_contract::<i128>(&id, &Symbol::new(e, f), args) };
        let mut m = Model { now: cfg.start_ledger, flavour: Some(cfg.flavour), ..Default::default() };
        let mut ev_bal: BTreeMap<usize, i128> = BTreeMap::new(); // balances reconstructed from events
        for (i, s) in steps.iter().enumerate() {
            let mut parked: Option<Violation> = None;
            match s {
                Step::List { user, on } => {
                    w.set_auth(&[]);
                    let f = match (cfg.flavour, on) { (Flavour::Allow, true) => "allow_user", (Flavour::Allow, false) => "disallow_user", (_, true) => "block_user", (_, false) => "unblock_user" };
                    if !call(f, (w.actors[*user].clone(), w.actors[0].clone()).into_val(e)) {
                        return Err(violation("harness.panic", "list", i, format!("list change refused: {s:?}")));
                    }
                    if *on { m.listed.insert(*user); } else { m.listed.remove(user); }
                    st.hit("collab.list_changed");
                }
                Step::Advance { n } => {
                    w.advance(*n);
                    m.now += n;
                    st.ledgers += *n as u64;
                    st.hit("clock.advance");
                    if *n > 1_000 {
                        st.hit("clock.jump");
                    }
                }
                Step::Tx { op, signer } => {
                    let a = |i: usize| w.actors[i].clone();
                    let max_live = e.ledger().max_live_until_ledger();
                    // ---- build the call + the honest authorization tree
                    let (kind, honest): (&str, Option<(usize, Inv)>) = match op {
                        Op::Mint { .. } => ("mint", None),
                        Op::Transfer { from, to, amt } => ("transfer", Some((*from, Inv::new(&id, "transfer", (a(*from), a(*to), *amt).into_val(e))))),
                        Op::TransferFrom { spender, from, to, amt } => ("transfer_from", Some((*spender, Inv::new(&id, "transfer_from", (a(*spender), a(*from), a(*to), *amt).into_val(e))))),
                        Op::Burn { from, amt } => ("burn", Some((*from, Inv::new(&id, "burn", (a(*from), *amt).into_val(e))))),
                        Op::BurnFrom { spender, from, amt } => ("burn_from", Some((*spender, Inv::new(&id, "burn_from", (a(*spender), a(*from), *amt).into_val(e))))),
                        Op::Approve { owner, spender, amt, live } => {
                            let l = live.abs(w.now(), max_live);
                            ("approve", Some((*owner, Inv::new(&id, "approve", (a(*owner), a(*spender), *amt, l).into_val(e)))))
                        }
                    };
                    let entries: Vec<(usize, Inv)> = match (honest, signer) {
                        (None, _) | (_, Signer::Nobody) => vec![],
                        (Some(h), Signer::Honest) => vec![h],
                        (Some((_, inv)), Signer::Other(o)) => vec![(*o, inv)],
                        (Some((p, mut inv)), Signer::WrongArgs) => {
                            // same principal signs a different last argument
                            let n = inv.args.len();
                            inv.args.set(n - 1, 424242u32.into_val(e));
                            vec![(p, inv)]
                        }
                    };
                    match signer {
                        Signer::Honest => {}
                        Signer::Nobody => st.hit("fault.auth_missing"),
                        Signer::Other(_) => st.hit("fault.auth_foreign"),
                        Signer::WrongArgs => st.hit("fault.auth_wrong_args"),
                    }
                    let before = w.storage_digest(&[&id]);
                    let bal_before: Vec<i128> = (0..cfg.actors).map(|x| qi("balance", (a(x),).into_val(e))).collect();
                    w.set_auth(&entries);
                    let got = match op {
                        Op::Mint { to, amt } => call("mint", (a(*to), *amt).into_val(e)),
                        Op::Transfer { from, to, amt } => call("transfer", (a(*from), a(*to), *amt).into_val(e)),
                        Op::TransferFrom { spender, from, to, amt } => call("transfer_from", (a(*spender), a(*from), a(*to), *amt).into_val(e)),
                        Op::Burn { from, amt } => call("burn", (a(*from), *amt).into_val(e)),
                        Op::BurnFrom { spender, from, amt } => call("burn_from", (a(*spender), a(*from), *amt).into_val(e)),
                        Op::Approve { owner, spender, amt, live } => call("approve", (a(*owner), a(*spender), *amt, live.abs(w.now(), max_live)).into_val(e)),
                    };
                    let events = e.events().all();
                    let decoded = w.last_events();
                    let exp = m.apply(op, *signer);
                    st.tx(kind, got);
                    // ---- C02 safety, stated without the model's outcome: who lost balance, and was that allowed?
                    if got {
                        for x in 0..cfg.actors {
                            let nb = qi("balance", (a(x),).into_val(e));
                            if nb < bal_before[x] {
                                let authorised_by_holder = entries.iter().any(|(w_, _)| *w_ == x) && matches!(op, Op::Transfer { from, .. } | Op::Burn { from, .. } if *from == x);
                                let by_allowance = matches!(op, Op::TransferFrom { from, spender, .. } | Op::BurnFrom { from, spender, .. } if *from == x && entries.iter().any(|(w_, _)| w_ == spender));
                                if !(authorised_by_holder || by_allowance) {
                                    self.clause(st, &mut parked, violation("auth.debit_needs_holder_or_allowance", kind, i, format!("balance of actor {x} fell {} -> {nb} in {s:?}", bal_before[x])))?;
                                }
                            }
                        }
                    }
                    if got != exp {
                        if let Some(v) = parked.take() {
                            return Err(v);
                        }
                        let gate_closed = !m.gate(op);
                        let check = if got && gate_closed { "gate.list" } else if got { "refine.must_fail" } else { "live.honest_call_succeeds" };
                        return Err(violation(check, kind, i, format!("model expected success={exp}, real={got}; step={s:?}; now={} model={m:?}", w.now())));
                    }
                    if !got {
                        if w.storage_digest(&[&id]) != before {
                            self.clause(st, &mut parked, violation("fail.no_trace", kind, i, format!("storage changed by failed {s:?}")))?;
                        }
                        if !events.events().is_empty() {
                            self.clause(st, &mut parked, violation("fail.no_trace", "events", i, format!("events emitted by failed {s:?}")))?;
                        }
                    } else {
                        // events → reconstructed balances; exactly one mint/burn/transfer event per successful update
                        let mut n_update_events = 0;
                        for ev in decoded.iter() {
                            let bad = || violation("events.replay_balances", "malformed", i, format!("event {} of {s:?} does not name its parties / amount as documented", ev.name));
                            match ev.name.as_str() {
                                "mint" => {
                                    n_update_events += 1;
                                    *ev_bal.entry(w.party(ev, 0).ok_or_else(bad)?).or_insert(0) += ev.amt("amount").ok_or_else(bad)?;
                                }
                                "burn" => {
                                    n_update_events += 1;
                                    *ev_bal.entry(w.party(ev, 0).ok_or_else(bad)?).or_insert(0) -= ev.amt("amount").ok_or_else(bad)?;
                                }
                                "transfer" => {
                                    n_update_events += 1;
                                    let am = ev.amt("amount").ok_or_else(bad)?;
                                    *ev_bal.entry(w.party(ev, 0).ok_or_else(bad)?).or_insert(0) -= am;
                                    *ev_bal.entry(w.party(ev, 1).ok_or_else(bad)?).or_insert(0) += am;
                                }
                                _ => {}
                            }
                        }
                        let expect_events = if matches!(op, Op::Approve { .. }) { 0 } else { 1 };
                        if n_update_events != expect_events {
                            self.clause(st, &mut parked, violation("events.one_per_update", kind, i, format!("{n_update_events} update events for {s:?}")))?;
                        }
                    }
                }
            }
            // ---- invariants after every step
            let mut sum: i128 = 0;
            for x in 0..cfg.actors {
                let b = qi("balance", (w.actors[x].clone(),).into_val(e));
                if b != m.b(x) {
                    self.clause(st, &mut parked, violation("conserve.balance_model_eq", "balance", i, format!("actor {x}: real {b} model {}", m.b(x))))?;
                }
                if b < 0 {
                    self.clause(st, &mut parked, violation("conserve.nonneg", "balance", i, format!("actor {x}: {b}")))?;
                }
                sum = match sum.checked_add(b) {
                    Some(x) => x,
                    None => return Err(violation("conserve.sum_eq_supply", "supply", i, "sum of balances exceeds i128::MAX".into())),
                };
                if *ev_bal.get(&x).unwrap_or(&0) != b {
                    self.clause(st, &mut parked, violation("events.replay_balances", "balance", i, format!("actor {x}: events give {} real {b}", ev_bal.get(&x).unwrap_or(&0))))?;
                }
            }
            let ts = qi("total_supply", ().into_val(e));
            if ts != sum || ts != m.supply {
                self.clause(st, &mut parked, violation("conserve.sum_eq_supply", "supply", i, format!("total_supply {ts} sum {sum} model {}", m.supply)))?;
            }
            for o in 0..cfg.actors {
                for sp in 0..cfg.actors {
                    let al = qi("allowance", (w.actors[o].clone(), w.actors[sp].clone()).into_val(e));
                    if al != m.allowance(o, sp) {
                        self.clause(st, &mut parked, violation("allowance.model_eq", "allowance", i, format!("({o},{sp}): real {al} model {} now {}", m.allowance(o, sp), w.now())))?;
                    }
                }
            }
            if let Some(v) = parked.take() {
                return Err(v);
            }
            st.state(&(cfg.flavour as u8, m.listed.len(), m.bal.values().map(|v| v.signum() as i8 + (*v > 1_000_000) as i8).collect::<Vec<_>>(), m.allow.values().filter(|v| v.0 > 0 && v.1 >= m.now).count()));
        }
        Ok(())
    }
}
