//! C03: smart-account authorization is sound and follows rule precedence
//! (examples/multisig-smart-account/account compiled from source, real do_check_auth).

use crate::core::*;
use crate::world::{Base as W, Inv};
use serde::{Deserialize, Serialize};
use soroban_sdk::{
    auth::{Context, ContractContext, ContractExecutable, CreateContractHostFnContext},
    contract, contractimpl, symbol_short, vec as svec, xdr, Address, Bytes, BytesN, Env, IntoVal, Map, String as SString, Symbol, TryFromVal, Val, Vec,
};
use std::cell::RefCell;
use std::collections::{BTreeMap, BTreeSet};
use stellar_accounts::policies::Policy;
use stellar_accounts::smart_account::{ContextRule, ContextRuleType, Signatures, Signer, SmartAccountError};

mod ex {
    #[path = "/repo/examples/multisig-smart-account/account/src/contract.rs"]
    pub mod c;
}
use ex::c::{MultisigContract, MultisigContractClient};

thread_local! { static LOG: RefCell<std::vec::Vec<(u8, &'static str, u32, u32)>> = RefCell::new(std::vec::Vec::new()); }

// ---- stub policy: scripted answers per rule id, attempted-call log owned by the simulator
#[contract]
pub struct StubPolicy;
#[contractimpl]
impl StubPolicy {
    pub fn set_tag(e: &Env, tag: u32) {
        e.storage().instance().set(&symbol_short!("tag"), &tag);
    }
    pub fn script(e: &Env, rule: u32, can: bool, trap: bool) {
        e.storage().instance().set(&(symbol_short!("can"), rule), &can);
        e.storage().instance().set(&(symbol_short!("trap"), rule), &trap);
    }
}
fn tag(e: &Env) -> u8 {
    e.storage().instance().get::<_, u32>(&symbol_short!("tag")).unwrap_or(0) as u8
}
#[contractimpl]
impl Policy for StubPolicy {
    type AccountParams = Val;
    fn can_enforce(e: &Env, _c: Context, s: Vec<Signer>, rule: ContextRule, _a: Address) -> bool {
        LOG.with(|l| l.borrow_mut().push((tag(e), "can", rule.id, s.len())));
        e.storage().instance().get(&(symbol_short!("can"), rule.id)).unwrap_or(true)
    }
    fn enforce(e: &Env, _c: Context, s: Vec<Signer>, rule: ContextRule, a: Address) {
        a.require_auth();
        LOG.with(|l| l.borrow_mut().push((tag(e), "enforce", rule.id, s.len())));
        if e.storage().instance().get(&(symbol_short!("trap"), rule.id)).unwrap_or(false) {
            panic!("scripted enforce trap");
        }
    }
    fn install(_e: &Env, _p: Val, _r: ContextRule, _a: Address) {}
    /// collaborator fault: a policy scripted to trap also traps when it is uninstalled — removing it (or its rule) from the
    /// account must work all the same (the library calls uninstall on a best-effort basis)
    fn uninstall(e: &Env, r: ContextRule, _a: Address) {
        if e.storage().instance().get(&(symbol_short!("trap"), r.id)).unwrap_or(false) {
            panic!("scripted uninstall trap");
        }
    }
}

mod edv {
    #[path = "/repo/examples/multisig-smart-account/ed25519-verifier/src/contract.rs"]
    pub mod c;
}
// ---- stub verifier: a signature is genuine iff sig == key ‖ payload
#[contract]
pub struct StubVerifier;
#[contractimpl]
impl StubVerifier {
    pub fn verify(e: &Env, hash: Bytes, key_data: Val, sig_data: Val) -> bool {
        let k = Bytes::try_from_val(e, &key_data).unwrap();
        let s = Bytes::try_from_val(e, &sig_data).unwrap();
        let mut exp = k.clone();
        exp.append(&hash);
        if s != exp && e.storage().instance().get(&soroban_sdk::symbol_short!("trap")).unwrap_or(false) {
            // like the library's ed25519 verifier: a bad signature is reported by trapping, not by `false`
            panic!("bad signature");
        }
        s == exp
    }
    pub fn set_trapping(e: &Env, on: bool) {
        e.storage().instance().set(&soroban_sdk::symbol_short!("trap"), &on);
    }
}

#[derive(Clone, Copy, Debug, Serialize, Deserialize, PartialEq, Eq, PartialOrd, Ord, Hash)]
pub enum SRef {
    Ext(u8),
    Del(usize),
}
#[derive(Clone, Copy, Debug, Serialize, Deserialize, PartialEq, Eq, PartialOrd, Ord, Hash)]
pub enum CType {
    Default,
    Call(u8), // target index; 255 = the account itself
    Create(u8),
}
#[derive(Clone, Copy, Debug, Serialize, Deserialize, PartialEq)]
pub enum Until {
    None,
    Rel(i64),
}
impl Until {
    fn abs(self, now: u32) -> Option<u32> {
        match self {
            Until::None => None,
            Until::Rel(k) => Some((now as i64 + k).max(0) as u32),
        }
    }
}
#[derive(Clone, Debug, Serialize, Deserialize)]
pub struct Supplied {
    pub who: SRef,
    pub genuine: bool, // external: signature bytes are key‖payload; delegated: its own entry is attached
}
#[derive(Clone, Debug, Serialize, Deserialize)]
pub enum Step {
    AddRule { ctype: CType, until: Until, signers: std::vec::Vec<SRef>, policies: std::vec::Vec<u8> },
    RemoveRule { id: u32 },
    SetUntil { id: u32, until: Until },
    /// update_context_rule_name: only the name may change (tag = which name)
    Rename { id: u32, tag: u8 },
    AddSigner { id: u32, s: SRef },
    RemoveSigner { id: u32, s: SRef },
    AddPolicy { id: u32, p: u8 },
    RemovePolicy { id: u32, p: u8 },
    Script { policy: u8, rule: u32, can: bool, trap: bool },
    Probe { supplied: std::vec::Vec<Supplied>, contexts: std::vec::Vec<CType> },
    Advance { n: u32 },
}
#[derive(Clone, Debug, Serialize, Deserialize)]
pub struct Cfg {
    pub start_ledger: u32,
    pub actors: usize,
    /// the verifier reports a bad signature by trapping (as ed25519 does) instead of returning false
    #[serde(default)]
    pub verifier_traps: bool,
    /// external signers are verified by examples/multisig-smart-account/ed25519-verifier (library verifiers::ed25519) with
    /// genuine ed25519 keys and signatures instead of the stub verifier
    #[serde(default)]
    pub real_ed25519: bool,
}
const ADMIN: SRef = SRef::Ext(99);
const NAMES: [&str; 5] = ["r", "renamed-a", "renamed-b", "renamed-c", "multisig"];
const N_POL: u8 = 6;

#[derive(Clone, Debug)]
struct Rule {
    name: u8,
    id: u32,
    ctype: CType,
    until: Option<u32>,
    signers: std::vec::Vec<SRef>,
    policies: std::vec::Vec<u8>,
}
#[derive(Clone, Debug, Default)]
struct Model {
    rules: std::vec::Vec<Rule>, // insertion order
    next_id: u32,
    now: u32,
    can: BTreeMap<(u8, u32), bool>,
    trap: BTreeMap<(u8, u32), bool>,
}
impl Model {
    fn fp(r: &Rule) -> (CType, BTreeSet<SRef>, BTreeSet<u8>) {
        (r.ctype, r.signers.iter().cloned().collect(), r.policies.iter().cloned().collect())
    }
    /// Some(enforce log) if the check must succeed, None if it must fail
    fn check(&self, supplied: &[Supplied], contexts: &[CType]) -> Option<std::vec::Vec<(u8, u32, u32)>> {
        if supplied.iter().any(|s| !s.genuine) {
            return None;
        }
        let have: BTreeSet<SRef> = supplied.iter().map(|s| s.who).collect();
        let mut log = vec![];
        let mut chosen = vec![];
        for c in contexts {
            let live = |r: &&Rule| r.until.map(|u| u >= self.now).unwrap_or(true);
            let mut cands: std::vec::Vec<&Rule> = vec![];
            if *c != CType::Default {
                cands.extend(self.rules.iter().filter(|r| r.ctype == *c).filter(live).rev());
            }
            cands.extend(self.rules.iter().filter(|r| r.ctype == CType::Default).filter(live).rev());
            let mut pick = None;
            for r in cands {
                let n_auth = r.signers.iter().filter(|s| have.contains(s)).count() as u32;
                let ok = if r.policies.is_empty() { n_auth as usize == r.signers.len() } else { r.policies.iter().all(|p| *self.can.get(&(*p, r.id)).unwrap_or(&true)) };
                if ok {
                    pick = Some((r, n_auth));
                    break;
                }
            }
            chosen.push(pick?);
        }
        for (r, n_auth) in chosen {
            // policies are stored as the keys of a Map<Address, _>: enforced in address order; compare as multiset
            for p in &r.policies {
                log.push((*p, r.id, n_auth));
                if *self.trap.get(&(*p, r.id)).unwrap_or(&false) {
                    return None;
                }
            }
        }
        Some(log)
    }
    fn mgmt_authorised(&self) -> bool {
        // management calls are authorised by the bootstrap admin signer against context Call(account)
        self.check(&[Supplied { who: ADMIN, genuine: true }], &[CType::Call(255)]).is_some()
    }
    fn apply(&mut self, s: &Step) -> bool {
        match s {
            Step::Advance { n } => {
                self.now += n;
                true
            }
            Step::Script { policy, rule, can, trap } => {
                self.can.insert((*policy, *rule), *can);
                self.trap.insert((*policy, *rule), *trap);
                true
            }
            Step::Probe { .. } => true,
            _ if !self.mgmt_authorised() => false,
            Step::AddRule { ctype, until, signers, policies } => {
                let u = until.abs(self.now);
                let sset: BTreeSet<_> = signers.iter().collect();
                let pset: BTreeSet<_> = policies.iter().collect();
                if self.rules.len() >= 15 || sset.len() != signers.len() || pset.len() != policies.len() || u.map(|x| x < self.now).unwrap_or(false) || signers.len() > 15 || policies.len() > 5 || (signers.is_empty() && policies.is_empty()) {
                    return false;
                }
                let r = Rule { name: 0, id: self.next_id, ctype: *ctype, until: u, signers: signers.clone(), policies: policies.clone() };
                if self.rules.iter().any(|x| Self::fp(x) == Self::fp(&r)) {
                    return false;
                }
                self.rules.push(r);
                self.next_id += 1;
                true
            }
            Step::RemoveRule { id } => {
                let Some(p) = self.rules.iter().position(|r| r.id == *id) else { return false };
                self.rules.remove(p);
                true
            }
            Step::Rename { id, tag } => {
                let Some(r) = self.rules.iter_mut().find(|r| r.id == *id) else { return false };
                r.name = *tag;
                true
            }
            Step::SetUntil { id, until } => {
                let u = until.abs(self.now);
                let now = self.now;
                let Some(r) = self.rules.iter_mut().find(|r| r.id == *id) else { return false };
                if u.map(|x| x < now).unwrap_or(false) {
                    return false;
                }
                r.until = u;
                true
            }
            Step::AddSigner { id, s } => {
                let Some(p) = self.rules.iter().position(|r| r.id == *id) else { return false };
                let mut r = self.rules[p].clone();
                if r.signers.contains(s) || r.signers.len() >= 15 {
                    return false;
                }
                r.signers.push(*s);
                if self.rules.iter().any(|x| x.id != r.id && Self::fp(x) == Self::fp(&r)) {
                    return false;
                }
                self.rules[p] = r;
                true
            }
            Step::AddPolicy { id, p: pol } => {
                let Some(p) = self.rules.iter().position(|r| r.id == *id) else { return false };
                let mut r = self.rules[p].clone();
                if r.policies.contains(pol) || r.policies.len() >= 5 {
                    return false;
                }
                r.policies.push(*pol);
                if self.rules.iter().any(|x| x.id != r.id && Self::fp(x) == Self::fp(&r)) {
                    return false;
                }
                self.rules[p] = r;
                true
            }
            Step::RemovePolicy { id, p: pol } => {
                let Some(p) = self.rules.iter().position(|r| r.id == *id) else { return false };
                let mut r = self.rules[p].clone();
                let Some(q) = r.policies.iter().position(|x| x == pol) else { return false };
                r.policies.remove(q);
                if r.signers.is_empty() && r.policies.is_empty() {
                    return false;
                }
                if self.rules.iter().any(|x| x.id != r.id && Self::fp(x) == Self::fp(&r)) {
                    return false;
                }
                self.rules[p] = r;
                true
            }
            Step::RemoveSigner { id, s } => {
                let Some(p) = self.rules.iter().position(|r| r.id == *id) else { return false };
                let mut r = self.rules[p].clone();
                let Some(q) = r.signers.iter().position(|x| x == s) else { return false };
                r.signers.remove(q);
                if r.signers.is_empty() && r.policies.is_empty() {
                    return false;
                }
                if self.rules.iter().any(|x| x.id != r.id && Self::fp(x) == Self::fp(&r)) {
                    return false;
                }
                self.rules[p] = r;
                true
            }
        }
    }
}

pub struct SmartAccount;

impl Check for SmartAccount {
    type Cfg = Cfg;
    type Step = Step;
    fn id(&self) -> &'static str {
        "smart_account"
    }
    fn runs(&self, tier: Tier) -> u64 {
        if tier == Tier::Quick {
            2500
        } else {
            30000
        }
    }
    fn components(&self) -> serde_json::Value {
        serde_json::json!({"real": ["examples/multisig-smart-account/account (from source)", "smart_account::{do_check_auth, authenticate, get_valid_context_rules, get_validated_context, rule management}", "PolicyClient / VerifierClient call paths"], "stub": ["StubPolicy (scripted can_enforce / enforce trap, call log)", "StubVerifier (sig == key‖payload; answers false or traps) in two thirds of the runs — the other third uses examples/multisig-smart-account/ed25519-verifier (library verifiers::ed25519, host ed25519_verify) with genuine keys", "Wallet for delegated signers"]})
    }
    fn clock_step(&self, n: u32) -> Option<Step> {
        Some(Step::Advance { n })
    }
    fn dup_ok(&self, _s: &Step) -> bool {
        true
    }
    fn reorder_ok(&self) -> bool {
        true
    }
    fn probes(&self, _prop: &str) -> std::vec::Vec<&'static str> {
        vec!["probe.accepted", "probe.rejected", "probe.run_with_real_ed25519_verifier", "probe.run_with_stub_verifier", "probe.max_context_rules_reached", "probe.max_signers_reached", "probe.max_policies_reached"]
    }
    fn property_of(&self, check: &str) -> std::vec::Vec<&'static str> {
        if check.starts_with("rules.manage_") {
            // outcome of add / remove / rename of rules, signers and policies (duplicates, absent items, limits,
            // admin authorization): the registry property, and the rule set C03 is evaluated over
            vec!["C03", "C20"]
        } else if check.starts_with("rules.") {
            vec!["C20"]
        } else {
            vec!["C03"]
        }
    }
    fn generate(&self, rng: &mut Rng, tier: Tier) -> (Cfg, std::vec::Vec<Step>) {
        let cfg = Cfg { start_ledger: 1 + rng.below(100_000) as u32, actors: 3, verifier_traps: rng.chance(50), real_ed25519: rng.chance(34) };
        let nsteps = if tier == Tier::Quick { 30 + rng.below(40) } else { 30 + rng.below(80) } as usize;
        let mut m = Model { now: cfg.start_ledger, next_id: 1, ..Default::default() };
        m.rules.push(Rule { name: 4, id: 0, ctype: CType::Default, until: None, signers: vec![ADMIN], policies: vec![] });
        let sref = |rng: &mut Rng| if rng.chance(75) { SRef::Ext(rng.below(6) as u8) } else { SRef::Del(rng.below(3) as usize) };
        let ctype = |rng: &mut Rng| match rng.below(10) {
            0..=2 => CType::Default,
            3..=6 => CType::Call(rng.below(3) as u8),
            7 => CType::Call(255),
            _ => CType::Create(rng.below(2) as u8),
        };
        let mut steps = vec![];
        let mut previous_def: Option<(CType, std::vec::Vec<SRef>, std::vec::Vec<u8>)> = None;
        // limit openings (an eighth of the runs): exactly MAX_SIGNERS / MAX_POLICIES / MAX_CONTEXT_RULES, then one more
        if rng.chance(12) {
            let ext = |k: u8| SRef::Ext(20 + k);
            let opening: std::vec::Vec<Step> = match rng.below(3) {
                0 => vec![
                    Step::AddRule { ctype: CType::Call(0), until: Until::None, signers: (0..15).map(ext).collect(), policies: vec![] },
                    Step::AddSigner { id: 1, s: ext(15) },
                    Step::AddRule { ctype: CType::Call(1), until: Until::None, signers: (0..16).map(ext).collect(), policies: vec![] },
                    Step::RemoveSigner { id: 1, s: ext(3) },
                    Step::AddSigner { id: 1, s: ext(15) },
                ],
                1 => vec![
                    Step::AddRule { ctype: CType::Call(0), until: Until::None, signers: vec![ext(0)], policies: vec![0, 1, 2, 3, 4] },
                    Step::AddPolicy { id: 1, p: 5 },
                    Step::AddRule { ctype: CType::Call(1), until: Until::None, signers: vec![ext(0)], policies: vec![0, 1, 2, 3, 4, 5] },
                    Step::RemovePolicy { id: 1, p: 2 },
                    Step::AddPolicy { id: 1, p: 5 },
                ],
                _ => {
                    let mut v: std::vec::Vec<Step> = (0..14u8).map(|k| Step::AddRule { ctype: CType::Call(k % 3), until: Until::None, signers: vec![ext(k)], policies: vec![] }).collect();
                    v.push(Step::AddRule { ctype: CType::Default, until: Until::None, signers: vec![ext(14)], policies: vec![] });
                    v.push(Step::RemoveRule { id: 7 });
                    v.push(Step::AddRule { ctype: CType::Default, until: Until::None, signers: vec![ext(15)], policies: vec![] });
                    v.push(Step::AddRule { ctype: CType::Default, until: Until::None, signers: vec![ext(16)], policies: vec![] });
                    v
                }
            };
            for st in opening {
                m.apply(&st);
                steps.push(st);
            }
        }
        // directed openings for precedence and expiry (a sixth of the runs):
        //  - three satisfiable rules of one type that differ only in their policy, an older one removed, then a probe: the
        //    NEWEST remaining rule must be the one whose policy is enforced (order of trial is observable only this way)
        //  - a rule with an expiry is renamed / gets a signer or policy added and removed again, then the ledger passes the
        //    expiry: it must not authorise any more
        if steps.is_empty() && rng.chance(16) {
            let ext = |k: u8| SRef::Ext(20 + k);
            let opening: std::vec::Vec<Step> = if rng.chance(50) {
                let t = CType::Call(rng.below(3) as u8);
                let gone = 1 + rng.below(2) as u32;
                let probe = Step::Probe { supplied: vec![Supplied { who: ext(0), genuine: true }], contexts: vec![t] };
                vec![
                    Step::AddRule { ctype: t, until: Until::None, signers: vec![ext(0)], policies: vec![0] },
                    Step::AddRule { ctype: t, until: Until::None, signers: vec![ext(0)], policies: vec![1] },
                    Step::AddRule { ctype: t, until: Until::None, signers: vec![ext(0)], policies: vec![2] },
                    probe.clone(),
                    Step::RemoveRule { id: gone },
                    probe.clone(),
                    Step::AddRule { ctype: t, until: Until::None, signers: vec![ext(0)], policies: vec![3] },
                    Step::RemoveRule { id: 3 - gone },
                    probe,
                ]
            } else {
                let t = CType::Call(rng.below(3) as u8);
                let life = 3 + rng.below(10) as i64;
                let probe = Step::Probe { supplied: vec![Supplied { who: ext(1), genuine: true }], contexts: vec![t] };
                let touch = match rng.below(3) {
                    0 => vec![Step::Rename { id: 1, tag: 1 + rng.below(3) as u8 }],
                    1 => vec![Step::AddSigner { id: 1, s: ext(2) }, Step::RemoveSigner { id: 1, s: ext(2) }],
                    _ => vec![Step::AddPolicy { id: 1, p: 4 }, Step::RemovePolicy { id: 1, p: 4 }],
                };
                let mut v = vec![Step::AddRule { ctype: t, until: Until::Rel(life), signers: vec![ext(1)], policies: vec![] }, probe.clone()];
                v.extend(touch);
                v.extend([probe.clone(), Step::Advance { n: life as u32 }, probe.clone(), Step::Advance { n: 1 }, probe]);
                v
            };
            for st in opening {
                m.apply(&st);
                steps.push(st);
            }
        }
        for _ in 0..nsteps {
            // "re-add after removal / edit": registries must forget the old definition completely
            if let Some((ct, sg, pl)) = previous_def.take() {
                if rng.chance(35) {
                    let s = Step::AddRule { ctype: ct, until: Until::None, signers: sg, policies: pl };
                    m.apply(&s);
                    steps.push(s);
                    continue;
                }
            }
            let ids: std::vec::Vec<u32> = m.rules.iter().map(|r| r.id).collect();
            let some_id = |rng: &mut Rng| if ids.is_empty() || rng.chance(10) { rng.below(m.next_id as u64 + 2) as u32 } else { *rng.pick(&ids) };
            let s = match rng.below(100) {
                0..=17 => {
                    let ns = rng.below(4) as usize;
                    let mut signers = vec![];
                    for _ in 0..ns {
                        let x = sref(rng);
                        if !signers.contains(&x) || rng.chance(3) {
                            signers.push(x);
                        }
                    }
                    let np = match rng.below(5) { 0 | 1 => 0, 2 | 3 => 1, _ => 2 };
                    let mut policies = vec![];
                    for _ in 0..np {
                        let p = rng.below(N_POL as u64) as u8;
                        if !policies.contains(&p) {
                            policies.push(p);
                        }
                    }
                    let until = match rng.below(6) { 0 | 1 => Until::None, 2 => Until::Rel(-1), 3 => Until::Rel(0), _ => Until::Rel(1 + rng.below(20) as i64) };
                    Step::AddRule { ctype: ctype(rng), until, signers, policies }
                }
                18..=22 => Step::RemoveRule { id: some_id(rng) },
                23..=24 => Step::Rename { id: some_id(rng), tag: 1 + rng.below(3) as u8 },
                25..=27 => Step::SetUntil { id: some_id(rng), until: match rng.below(4) { 0 => Until::None, 1 => Until::Rel(-1), _ => Until::Rel(rng.below(15) as i64) } },
                28..=31 => Step::AddSigner { id: some_id(rng), s: sref(rng) },
                32..=35 => {
                    let id = some_id(rng);
                    let s = m.rules.iter().find(|r| r.id == id).and_then(|r| r.signers.first().cloned()).unwrap_or_else(|| sref(rng));
                    Step::RemoveSigner { id, s }
                }
                36..=37 => Step::AddPolicy { id: some_id(rng), p: rng.below(N_POL as u64) as u8 },
                38..=39 => {
                    let id = some_id(rng);
                    let p = m.rules.iter().find(|r| r.id == id).and_then(|r| r.policies.first().cloned()).unwrap_or(0);
                    Step::RemovePolicy { id, p }
                }
                40..=43 => Step::Script { policy: rng.below(N_POL as u64) as u8, rule: some_id(rng), can: rng.chance(55), trap: rng.chance(15) },
                44..=87 => {
                    // supplied signers: biased towards the signer set of some live rule, ± one
                    let mut supplied: std::vec::Vec<Supplied> = vec![];
                    if !m.rules.is_empty() && rng.chance(80) {
                        let r = rng.pick(&m.rules).clone();
                        for s in &r.signers {
                            if *s != ADMIN && !rng.chance(12) {
                                supplied.push(Supplied { who: *s, genuine: !rng.chance(4) });
                            }
                        }
                    }
                    for _ in 0..rng.below(3) {
                        let x = sref(rng);
                        if !supplied.iter().any(|s| s.who == x) {
                            supplied.push(Supplied { who: x, genuine: !rng.chance(6) });
                        }
                    }
                    if rng.chance(4) {
                        supplied.push(Supplied { who: ADMIN, genuine: true });
                    }
                    let nc = 1 + rng.below(3) as usize;
                    let contexts = (0..nc).map(|_| match rng.below(10) { 0..=6 => CType::Call(rng.below(3) as u8), 7 => CType::Call(255), _ => CType::Create(rng.below(2) as u8) }).collect();
                    Step::Probe { supplied, contexts }
                }
                _ => {
                    let ds: std::vec::Vec<u32> = m.rules.iter().filter_map(|r| r.until).filter(|u| *u >= m.now).collect();
                    let n = if !ds.is_empty() && rng.chance(70) { (*rng.pick(&ds) + rng.below(3) as u32).saturating_sub(1).saturating_sub(m.now) } else { rng.below(4) as u32 };
                    Step::Advance { n }
                }
            };
            if let Step::RemoveRule { id } | Step::AddSigner { id, .. } | Step::RemoveSigner { id, .. } | Step::AddPolicy { id, .. } | Step::RemovePolicy { id, .. } = &s {
                previous_def = m.rules.iter().find(|r| r.id == *id).map(|r| (r.ctype, r.signers.clone(), r.policies.clone()));
            }
            if !m.apply(&s) {
                previous_def = None;
            }
            steps.push(s);
        }
        (cfg, steps)
    }
    fn simplify(&self, s: &Step) -> std::vec::Vec<Step> {
        match s {
            Step::Advance { n } if *n > 1 => vec![Step::Advance { n: 1 }, Step::Advance { n: n / 2 }],
            Step::Probe { supplied, contexts } if contexts.len() > 1 || supplied.len() > 1 => {
                let mut out = vec![];
                for k in 0..contexts.len() {
                    let mut c = contexts.clone();
                    c.remove(k);
                    if !c.is_empty() {
                        out.push(Step::Probe { supplied: supplied.clone(), contexts: c });
                    }
                }
                for k in 0..supplied.len() {
                    let mut c = supplied.clone();
                    c.remove(k);
                    out.push(Step::Probe { supplied: c, contexts: contexts.clone() });
                }
                out
            }
            _ => vec![],
        }
    }
    fn execute(&self, cfg: &Cfg, steps: &[Step], st: &mut Stats) -> Result<(), Violation> {
        let w = W::new(cfg.actors, cfg.start_ledger, 16);
        let e = &w.e;
        let ver = if cfg.real_ed25519 { e.register(edv::c::Ed25519VerifierContract, ()) } else { e.register(StubVerifier, ()) };
        if cfg.verifier_traps && !cfg.real_ed25519 {
            StubVerifierClient::new(e, &ver).set_trapping(&true);
        }
        st.hit(if cfg.real_ed25519 { "probe.run_with_real_ed25519_verifier" } else { "probe.run_with_stub_verifier" });
        let sk = |k: u8| ed25519_dalek::SigningKey::from_bytes(&[k.wrapping_add(1); 32]);
        let pols: std::vec::Vec<Address> = (0..N_POL).map(|k| {
            let p = e.register(StubPolicy, ());
            StubPolicyClient::new(e, &p).set_tag(&(k as u32));
            p
        }).collect();
        let targets: std::vec::Vec<Address> = (0..3).map(|_| <Address as soroban_sdk::testutils::Address>::generate(e)).collect();
        let key = |k: u8| if cfg.real_ed25519 { Bytes::from_array(e, &sk(k).verifying_key().to_bytes()) } else { Bytes::from_array(e, &[k; 8]) };
        // signature data of external signer k over `payload` (a bad one is a well-formed signature over other bytes)
        let sig_of = |k: u8, payload: &[u8; 32], genuine: bool| -> Bytes {
            let signed: [u8; 32] = if genuine { *payload } else { [0xEE; 32] };
            if cfg.real_ed25519 {
                use ed25519_dalek::Signer as _;
                Bytes::from_array(e, &sk(k).sign(&signed).to_bytes())
            } else {
                let mut sig = Bytes::from_array(e, &[k; 8]);
                sig.append(&Bytes::from_array(e, &signed));
                sig
            }
        };
        let signer = |s: SRef| match s {
            SRef::Ext(k) => Signer::External(ver.clone(), key(k)),
            SRef::Del(a) => Signer::Delegated(w.actors[a].clone()),
        };
        let acct = e.register(MultisigContract, (svec![e, signer(ADMIN)], Map::<Address, Val>::new(e)));
        let ac = MultisigContractClient::new(e, &acct);
        let ctx_type = |c: CType| match c {
            CType::Default => ContextRuleType::Default,
            CType::Call(255) => ContextRuleType::CallContract(acct.clone()),
            CType::Call(j) => ContextRuleType::CallContract(targets[j as usize].clone()),
            CType::Create(h) => ContextRuleType::CreateContract(BytesN::from_array(e, &[h + 1; 32])),
        };
        let mk_ctx = |c: CType| match c {
            CType::Call(255) => Context::Contract(ContractContext { contract: acct.clone(), fn_name: Symbol::new(e, "foo"), args: svec![e] }),
            CType::Call(j) => Context::Contract(ContractContext { contract: targets[j as usize].clone(), fn_name: Symbol::new(e, "foo"), args: svec![e, 7u32.into_val(e)] }),
            CType::Create(h) => Context::CreateContractHostFn(CreateContractHostFnContext { executable: ContractExecutable::Wasm(BytesN::from_array(e, &[h + 1; 32])), salt: BytesN::from_array(e, &[9u8; 32]) }),
            CType::Default => unreachable!(),
        };
        let mut m = Model { now: cfg.start_ledger, next_id: 1, ..Default::default() };
        m.rules.push(Rule { name: 4, id: 0, ctype: CType::Default, until: None, signers: vec![ADMIN], policies: vec![] });

        // management call authorised by the admin signer through a real entry for the account
        let mgmt = |f: &'static str, args: Vec<Val>| -> bool {
            let inv = Inv::new(&acct, f, args.clone());
            let nonce = w.next_nonce();
            let exp = w.now() + 100;
            let x = inv.to_xdr(e);
            let p = w.payload(nonce, exp, &x);
            let sig = sig_of(99, &p, true);
            let mut mp: Map<Signer, Bytes> = Map::new(e);
            mp.set(signer(ADMIN), sig);
            let sv: Val = Signatures(mp).into_val(e);
            let entry = xdr::SorobanAuthorizationEntry {
                credentials: xdr::SorobanCredentials::Address(xdr::SorobanAddressCredentials { address: (&acct).try_into().unwrap(), nonce, signature_expiration_ledger: exp, signature: xdr::ScVal::try_from_val(e, &sv).unwrap() }),
                root_invocation: x,
            };
            w.set_auth_mixed(&[], vec![entry]);
            e.try_invoke_contract::<Val, soroban_sdk::Error>(&acct, &Symbol::new(e, f), args).map(|r| r.is_ok()).unwrap_or(false)
        };

        // a violated observation clause of the other property does not end the run here: the model keeps describing the
        // intended behaviour, and what the damaged registry (or verifier) does to the property being decided is still to be seen
        let mut soft: Option<Violation> = None;
        for (i, s) in steps.iter().enumerate() {
            let mut parked: Option<Violation> = None;
            LOG.with(|l| l.borrow_mut().clear());
            let now = w.now();
            let got: Option<bool> = match s {
                Step::Advance { n } => {
                    w.advance(*n);
                    st.ledgers += *n as u64; st.hit("clock.advance"); if *n > 100_000 { st.hit("clock.jump"); }
                    None
                }
                Step::Script { policy, rule, can, trap } => {
                    StubPolicyClient::new(e, &pols[*policy as usize]).script(rule, can, trap);
                    None
                }
                Step::AddRule { ctype, until, signers, policies } => {
                    let sg: Vec<Signer> = Vec::from_iter(e, signers.iter().map(|x| signer(*x)));
                    let mut pm: Map<Address, Val> = Map::new(e);
                    for p in policies {
                        pm.set(pols[*p as usize].clone(), ().into_val(e));
                    }
                    Some(mgmt("add_context_rule", (ctx_type(*ctype), SString::from_str(e, "r"), until.abs(now), sg, pm).into_val(e)))
                }
                Step::RemoveRule { id } => Some(mgmt("remove_context_rule", (*id,).into_val(e))),
                Step::SetUntil { id, until } => Some(mgmt("update_context_rule_valid_until", (*id, until.abs(now)).into_val(e))),
                Step::Rename { id, tag } => Some(mgmt("update_context_rule_name", (*id, SString::from_str(e, NAMES[*tag as usize])).into_val(e))),
                Step::AddSigner { id, s } => Some(mgmt("add_signer", (*id, signer(*s)).into_val(e))),
                Step::RemoveSigner { id, s } => Some(mgmt("remove_signer", (*id, signer(*s)).into_val(e))),
                Step::AddPolicy { id, p } => Some(mgmt("add_policy", (*id, pols[*p as usize].clone(), ()).into_val(e))),
                Step::RemovePolicy { id, p } => Some(mgmt("remove_policy", (*id, pols[*p as usize].clone()).into_val(e))),
                Step::Probe { supplied, contexts } => {
                    let payload = BytesN::<32>::from_array(e, &[(i % 250) as u8 + 1; 32]);
                    let mut mp: Map<Signer, Bytes> = Map::new(e);
                    let mut wallet_entries = vec![];
                    for sp in supplied {
                        match sp.who {
                            SRef::Ext(k) => {
                                if !sp.genuine {
                                    st.hit("fault.bad_signature");
                                }
                                mp.set(signer(sp.who), sig_of(k, &payload.to_array(), sp.genuine));
                            }
                            SRef::Del(a) => {
                                mp.set(signer(sp.who), Bytes::new(e));
                                if sp.genuine {
                                    wallet_entries.push((a, Inv::new(&acct, "__check_auth", (payload.clone(),).into_val(e))));
                                } else {
                                    st.hit("fault.delegated_entry_missing");
                                }
                            }
                        }
                    }
                    w.set_auth(&wallet_entries);
                    let ctxs: Vec<Context> = Vec::from_iter(e, contexts.iter().map(|c| mk_ctx(*c)));
                    let r = e.try_invoke_contract_check_auth::<SmartAccountError>(&acct, &payload, Signatures(mp).into_val(e), &ctxs);
                    let got = r.is_ok();
                    let want = m.check(supplied, contexts);
                    st.hit(if got { "probe.accepted" } else { "probe.rejected" });
                    let log: std::vec::Vec<(u8, &'static str, u32, u32)> = LOG.with(|l| l.borrow().clone());
                    if got != want.is_some() {
                        let check = if got {
                            if supplied.iter().any(|x| !x.genuine) { "sound.bad_signature_rejected" } else { "sound.no_rule_rejected" }
                        } else {
                            "complete.accepts_when_rule_met"
                        };
                        self.clause(st, &mut parked, violation(check, "probe", i, format!("real accepted={got} ({r:?}), model {want:?}; step {s:?}; now {}; rules {:?}; can {:?}; log {log:?}", w.now(), m.rules, m.can)))?;
                    }
                    if let Some(want_log) = want {
                        let mut real: std::vec::Vec<(u8, u32, u32)> = log.iter().filter(|x| x.1 == "enforce").map(|x| (x.0, x.2, x.3)).collect();
                        let mut wl = want_log.clone();
                        real.sort();
                        wl.sort();
                        if real != wl {
                            self.clause(st, &mut parked, violation("enforce.exactly_chosen_once", "probe", i, format!("enforce calls {real:?}, expected {wl:?}; step {s:?}; rules {:?}", m.rules)))?;
                        }
                    }
                    // signers passed to policies are always a subset of (rule signers ∩ supplied)
                    let have: BTreeSet<SRef> = supplied.iter().map(|x| x.who).collect();
                    for (_, _, rid, n) in &log {
                        if let Some(r) = m.rules.iter().find(|r| r.id == *rid) {
                            let inter = r.signers.iter().filter(|x| have.contains(x)).count() as u32;
                            if *n != inter {
                                self.clause(st, &mut parked, violation("signers.subset_of_rule", "probe", i, format!("policy saw {n} signers for rule {rid}, rule∩supplied = {inter}")))?;
                            }
                        }
                    }
                    None
                }
            };
            let exp = m.apply(s);
            if let Some(g) = got {
                st.tx("manage", g);
                if g != exp {
                    return Err(violation(if g { "rules.manage_must_fail" } else { "rules.manage_must_succeed" }, "manage", i, format!("{s:?}: real {g} model {exp}; rules {:?}", m.rules)));
                }
            }
            // registry view agrees (cheap: count + each rule's stored definition)
            let cnt = ac.get_context_rules_count();
            if cnt as usize != m.rules.len() {
                self.clause(st, &mut parked, violation("rules.count_eq", "manage", i, format!("count {cnt} model {}", m.rules.len())))?;
            }
            // every stored definition, by id and by type (ids in insertion order), ids never reused
            for r in &m.rules {
                let got = match ac.try_get_context_rule(&r.id) {
                    Ok(Ok(g)) => g,
                    other => {
                        self.clause(st, &mut parked, violation("rules.getters_eq_model", "get_context_rule", i, format!("rule {} does not answer ({:?}) after {s:?}", r.id, other.err())))?;
                        continue;
                    }
                };
                let sg: std::vec::Vec<Signer> = got.signers.iter().collect();
                let want_sg: std::vec::Vec<Signer> = r.signers.iter().map(|x| signer(*x)).collect();
                let pl: BTreeSet<Address> = got.policies.iter().collect();
                let want_pl: BTreeSet<Address> = r.policies.iter().map(|p| pols[*p as usize].clone()).collect();
                if got.id != r.id || got.name != SString::from_str(e, NAMES[r.name as usize]) || got.context_type != ctx_type(r.ctype) || sg != want_sg || pl != want_pl || got.policies.len() as usize != want_pl.len() || got.valid_until != r.until {
                    self.clause(st, &mut parked, violation("rules.getters_eq_model", "get_context_rule", i, format!("rule {}: stored definition differs from model {r:?} after {s:?}", r.id)))?;
                }
            }
            for t in [CType::Default, CType::Call(0), CType::Call(1), CType::Call(2), CType::Call(255), CType::Create(0), CType::Create(1)] {
                let ids: std::vec::Vec<u32> = match ac.try_get_context_rules(&ctx_type(t)) {
                    Ok(Ok(v)) => v.iter().map(|r| r.id).collect(),
                    other => {
                        self.clause(st, &mut parked, violation("rules.getters_eq_model", "get_context_rules", i, format!("type {t:?}: the per-type list does not answer ({:?}) after {s:?}", other.err())))?;
                        continue;
                    }
                };
                // compared as sets: C20 speaks of the set; the ORDER in which rules are tried is C03's and is observed through
                // which rule's policies get enforced (Probe), not through the order of this list
                let mut ids = ids;
                ids.sort();
                let mut want: std::vec::Vec<u32> = m.rules.iter().filter(|r| r.ctype == t).map(|r| r.id).collect();
                want.sort();
                if ids != want {
                    self.clause(st, &mut parked, violation("rules.getters_eq_model", "get_context_rules", i, format!("type {t:?}: ids {ids:?}, model {want:?} after {s:?}")))?;
                }
            }
            if m.rules.len() == 15 { st.hit("probe.max_context_rules_reached"); }
            if m.rules.iter().any(|r| r.signers.len() == 15) { st.hit("probe.max_signers_reached"); }
            if m.rules.iter().any(|r| r.policies.len() == 5) { st.hit("probe.max_policies_reached"); }
            if ac.try_get_context_rule(&m.next_id).is_ok() {
                self.clause(st, &mut parked, violation("rules.ids_never_reused", "next_id", i, format!("rule id {} exists before being issued", m.next_id)))?;
            }
            if let Some(v) = parked.take() {
                soft.get_or_insert(v);
            }
            st.state(&(m.rules.iter().map(|r| (r.ctype, r.signers.len(), r.policies.len(), r.until.map(|u| u >= m.now))).collect::<std::vec::Vec<_>>(),));
        }
        if let Some(v) = soft {
            return Err(v);
        }
        Ok(())
    }
}
