//! C20 (identity registry storage): identities, profiles, recovery links.

use crate::core::*;
use crate::world::Base as W;
use serde::{Deserialize, Serialize};
use soroban_sdk::{contract, contractimpl, vec as svec, Address, Env, Vec};
use std::collections::BTreeMap;
use stellar_tokens::rwa::identity_registry_storage::{self as irs, CountryData, CountryRelation, IdentityType, IndividualCountryRelation};

fn cd(code: u32) -> CountryData {
    CountryData { country: CountryRelation::Individual(IndividualCountryRelation::Residence(code)), metadata: None }
}
#[contract]
pub struct Irs;
#[contractimpl]
impl Irs {
    pub fn add(e: &Env, account: Address, identity: Address, n_countries: u32) {
        let v: Vec<CountryData> = Vec::from_iter(e, (0..n_countries).map(|k| cd(100 + k)));
        irs::add_identity(e, &account, &identity, IdentityType::Individual, &v)
    }
    pub fn remove(e: &Env, account: Address) { irs::remove_identity(e, &account) }
    pub fn modify(e: &Env, account: Address, identity: Address) { irs::modify_identity(e, &account, &identity) }
    pub fn recover(e: &Env, old: Address, new: Address) { irs::recover_identity(e, &old, &new) }
    pub fn add_country(e: &Env, account: Address, code: u32) { irs::add_country_data_entries(e, &account, &svec![e, cd(code)]) }
    pub fn del_country(e: &Env, account: Address, index: u32) { irs::delete_country_data(e, &account, index) }
    pub fn stored(e: &Env, account: Address) -> Address { irs::stored_identity(e, &account) }
    pub fn recovered_to(e: &Env, old: Address) -> Option<Address> { irs::get_recovered_to(e, &old) }
    pub fn countries(e: &Env, account: Address) -> Vec<CountryData> { irs::get_country_data_entries(e, &account) }
    pub fn mod_country(e: &Env, account: Address, index: u32, code: u32) { irs::modify_country_data(e, &account, index, &cd(code)) }
    pub fn country_at(e: &Env, account: Address, index: u32) -> CountryData { irs::get_country_data(e, &account, index) }
    pub fn profile_len(e: &Env, account: Address) -> u32 { irs::get_identity_profile(e, &account).countries.len() }
}

#[derive(Clone, Debug, Serialize, Deserialize)]
pub enum Step {
    /// the clock (inserted by the core's clock faults)
    Wait { n: u32 },
    Add { acc: usize, ident: usize, n: u32 },
    Remove { acc: usize },
    Modify { acc: usize, ident: usize },
    Recover { old: usize, new: usize },
    AddCountry { acc: usize, code: u32 },
    DelCountry { acc: usize, idx: u32 },
    ModCountry { acc: usize, idx: u32, code: u32 },
}
#[derive(Clone, Debug, Serialize, Deserialize)]
pub struct Cfg { pub accounts: usize }

pub struct IrsCheck;
impl Check for IrsCheck {
    type Cfg = Cfg;
    type Step = Step;
    fn id(&self) -> &'static str { "irs" }
    fn runs(&self, tier: Tier) -> u64 {
        if tier == Tier::Quick {
            2000
        } else {
            60000
        }
    }
    fn components(&self) -> serde_json::Value { serde_json::json!({"real": ["rwa::identity_registry_storage::* behind a wrapper"], "stub": []}) }
    fn generate(&self, rng: &mut Rng, tier: Tier) -> (Cfg, std::vec::Vec<Step>) {
        let cfg = Cfg { accounts: 4 + rng.below(3) as usize };
        let n = cfg.accounts as u64;
        let nsteps = if tier == Tier::Quick { 30 + rng.below(40) } else { 30 + rng.below(90) } as usize;
        let mut steps = vec![];
        for _ in 0..nsteps {
            let acc = rng.below(n) as usize;
            steps.push(match rng.below(100) {
                0..=27 => Step::Add { acc, ident: rng.below(4) as usize, n: match rng.below(8) { 0 => 0, 1 => 15, 2 => 16, _ => 1 + rng.below(3) as u32 } },
                28..=37 => Step::Remove { acc },
                38..=45 => Step::Modify { acc, ident: rng.below(4) as usize },
                46..=63 => Step::Recover { old: acc, new: rng.below(n) as usize },
                64..=87 => Step::AddCountry { acc, code: rng.below(900) as u32 },
                88..=93 => Step::ModCountry { acc, idx: rng.below(5) as u32, code: rng.below(900) as u32 },
                _ => Step::DelCountry { acc, idx: rng.below(4) as u32 },
            });
        }
        (cfg, steps)
    }
    fn clock_step(&self, n: u32) -> Option<Step> {
        Some(Step::Wait { n })
    }
    fn probes(&self, _prop: &str) -> std::vec::Vec<&'static str> {
        vec!["probe.country_limit_reached", "probe.identity_recovered"]
    }
    fn dup_ok(&self, _s: &Step) -> bool {
        true
    }
    fn reorder_ok(&self) -> bool {
        true
    }
    fn execute(&self, cfg: &Cfg, steps: &[Step], st: &mut Stats) -> Result<(), Violation> {
        let w = W::new(cfg.accounts + 4, 100, 16);
        let e = &w.e;
        let id = e.register(Irs, ());
        let c = IrsClient::new(e, &id);
        let acc = |k: usize| w.actors[k].clone();
        let ident = |k: usize| w.actors[cfg.accounts + k].clone();
        let mut reg: BTreeMap<usize, (usize, std::vec::Vec<u32>)> = BTreeMap::new(); // account -> (identity, country codes)
        let mut rec: BTreeMap<usize, usize> = BTreeMap::new();
        for (i, s) in steps.iter().enumerate() {
            let before = w.storage_digest(&[&id]);
            let (kind, got, exp) = match s {
                Step::Wait { n } => {
                    w.advance(*n);
                    st.ledgers += *n as u64;
                    st.hit("clock.advance");
                    ("wait", true, true)
                }
                Step::Add { acc: a, ident: d, n } => {
                    let g = c.try_add(&acc(*a), &ident(*d), n).is_ok();
                    let x = !rec.contains_key(a) && !reg.contains_key(a) && *n >= 1 && *n <= 15;
                    if x { reg.insert(*a, (*d, (0..*n).map(|k| 100 + k).collect())); }
                    ("add_identity", g, x)
                }
                Step::Remove { acc: a } => { let g = c.try_remove(&acc(*a)).is_ok(); let x = reg.remove(a).is_some(); ("remove_identity", g, x) }
                Step::Modify { acc: a, ident: d } => { let g = c.try_modify(&acc(*a), &ident(*d)).is_ok(); let x = reg.contains_key(a); if x { reg.get_mut(a).unwrap().0 = *d; } ("modify_identity", g, x) }
                Step::Recover { old, new } => {
                    let g = c.try_recover(&acc(*old), &acc(*new)).is_ok();
                    let x = !rec.contains_key(new) && reg.contains_key(old) && !reg.contains_key(new);
                    if x { let v = reg.remove(old).unwrap(); reg.insert(*new, v); rec.insert(*old, *new); st.hit("probe.identity_recovered"); }
                    ("recover_identity", g, x)
                }
                Step::AddCountry { acc: a, code } => {
                    let g = c.try_add_country(&acc(*a), code).is_ok();
                    let x = reg.get(a).map(|r| r.1.len() < 15).unwrap_or(false);
                    if x { reg.get_mut(a).unwrap().1.push(*code); }
                    ("add_country_data_entries", g, x)
                }
                Step::DelCountry { acc: a, idx } => {
                    let g = c.try_del_country(&acc(*a), idx).is_ok();
                    let x = reg.get(a).map(|r| r.1.len() > 1 && (*idx as usize) < r.1.len()).unwrap_or(false);
                    if x { reg.get_mut(a).unwrap().1.remove(*idx as usize); }
                    ("delete_country_data", g, x)
                }
                Step::ModCountry { acc: a, idx, code } => {
                    let g = c.try_mod_country(&acc(*a), idx, code).is_ok();
                    let x = reg.get(a).map(|r| (*idx as usize) < r.1.len()).unwrap_or(false);
                    if x { reg.get_mut(a).unwrap().1[*idx as usize] = *code; }
                    ("modify_country_data", g, x)
                }
            };
            if kind != "wait" {
                st.tx(kind, got);
            }
            if got != exp {
                let check = if kind == "add_identity" && got && matches!(s, Step::Add { acc, .. } if rec.contains_key(acc)) { "irs.recovered_never_reregistered" } else { "irs.dup_or_absent_refused" };
                return Err(violation(check, kind, i, format!("{s:?}: real {got} model {exp}; registered {:?} recovered {rec:?}", reg.keys().collect::<std::vec::Vec<_>>())));
            }
            if !got && w.storage_digest(&[&id]) != before { return Err(violation("fail.no_trace", kind, i, format!("{s:?}"))); }
            for a in 0..cfg.accounts {
                match (c.try_stored(&acc(a)), reg.get(&a)) {
                    (Ok(Ok(ad)), Some(r)) if ad == ident(r.0) => {}
                    (Err(_), None) => {}
                    (r, m) => return Err(violation("irs.getters_eq_model", "stored_identity", i, format!("account {a}: {:?} vs model {m:?} after {s:?}", r.map(|x| x.is_ok())))),
                }
                if c.recovered_to(&acc(a)) != rec.get(&a).map(|x| acc(*x)) { return Err(violation("irs.getters_eq_model", "get_recovered_to", i, format!("account {a} after {s:?}"))); }
                let cs = c.countries(&acc(a));
                let want: std::vec::Vec<u32> = reg.get(&a).map(|r| r.1.clone()).unwrap_or_default();
                let have: std::vec::Vec<u32> = cs.iter().map(|x| match x.country { CountryRelation::Individual(IndividualCountryRelation::Residence(k)) => k, _ => 0 }).collect();
                if have != want { return Err(violation("irs.getters_eq_model", "country_data", i, format!("account {a}: {have:?} vs {want:?} after {s:?}"))); }
                if want.len() == 15 { st.hit("probe.country_limit_reached"); }
                // index-based access enumerates every entry exactly once; one past the end fails; the profile agrees
                for (k, code) in want.iter().enumerate() {
                    match c.try_country_at(&acc(a), &(k as u32)) {
                        Ok(Ok(x)) if matches!(x.country, CountryRelation::Individual(IndividualCountryRelation::Residence(v)) if v == *code) => {}
                        _ => return Err(violation("irs.enum_each_once", "get_country_data", i, format!("account {a} index {k}: not the model's entry {code} after {s:?}"))),
                    }
                }
                if c.try_country_at(&acc(a), &(want.len() as u32)).is_ok() { return Err(violation("irs.enum_each_once", "past_end", i, format!("account {a}: index == len answers after {s:?}"))); }
                match (c.try_profile_len(&acc(a)), reg.contains_key(&a)) {
                    (Ok(Ok(l)), true) if l as usize == want.len() => {}
                    (Err(_), false) => {}
                    (r, _) => return Err(violation("irs.getters_eq_model", "get_identity_profile", i, format!("account {a}: profile {:?}, model {} entries after {s:?}", r.map(|x| x.ok()), want.len()))),
                }
            }
            st.state(&(reg.keys().cloned().collect::<std::vec::Vec<_>>(), rec.clone()));
        }
        Ok(())
    }
}
