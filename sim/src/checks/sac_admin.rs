//! C06 on examples/sac-admin-wrapper (compiled from source): a contract that administers a Stellar Asset Contract and
//! exposes mint / clawback / set_authorized to holders of the "manager" role only (each with that account's own
//! authorization). The SAC itself is the host's built-in token (trusted); what is decided here is who can drive it.

use crate::core::*;
use crate::world::{Base as W, Inv};
use serde::{Deserialize, Serialize};
use soroban_sdk::{symbol_short, token::{StellarAssetClient, TokenClient}, Address, IntoVal, Symbol, Val, Vec};
use std::collections::{BTreeMap, BTreeSet};

mod ex {
    #[path = "/repo/examples/sac-admin-wrapper/src/contract.rs"]
    pub mod c;
}
use ex::c::ExampleContract;

#[derive(Clone, Debug, Serialize, Deserialize)]
pub enum Step {
    Wait { n: u32 },
    Mint { to: usize, #[serde(with = "i128s")] amt: i128, operator: usize, signer: Option<usize> },
    Clawback { from: usize, #[serde(with = "i128s")] amt: i128, operator: usize, signer: Option<usize> },
    SetAuthorized { id: usize, on: bool, operator: usize, signer: Option<usize> },
    GrantManager { account: usize, signer: Option<usize> },
    RevokeManager { account: usize, signer: Option<usize> },
}
#[derive(Clone, Debug, Serialize, Deserialize)]
pub struct Cfg {
    pub actors: usize,
}
// actor 0 = admin of the wrapper, actor 1 = initial manager
#[derive(Clone, Debug, Default)]
struct Model {
    managers: BTreeSet<usize>,
    bal: BTreeMap<usize, i128>,
    deauthorized: BTreeSet<usize>,
}
impl Model {
    fn role_ok(&self, operator: usize, signer: Option<usize>) -> bool {
        signer == Some(operator) && self.managers.contains(&operator)
    }
}

pub struct SacAdmin;

impl Check for SacAdmin {
    type Cfg = Cfg;
    type Step = Step;
    fn id(&self) -> &'static str {
        "sac_admin"
    }
    fn runs(&self, tier: Tier) -> u64 {
        if tier == Tier::Quick {
            2500
        } else {
            60000
        }
    }
    fn components(&self) -> serde_json::Value {
        serde_json::json!({"real": ["examples/sac-admin-wrapper (from source)", "fungible::sac_admin_wrapper::*", "access_control (role manager, admin)", "#[only_role] / #[only_admin]"], "stub": ["Stellar Asset Contract = the host's built-in token (trusted)", "Wallet"]})
    }
    fn clock_step(&self, n: u32) -> Option<Step> {
        Some(Step::Wait { n })
    }
    fn dup_ok(&self, _s: &Step) -> bool {
        true
    }
    fn reorder_ok(&self) -> bool {
        true
    }
    fn probes(&self, _prop: &str) -> std::vec::Vec<&'static str> {
        vec!["fault.auth_missing", "fault.auth_foreign", "probe.former_manager_acts"]
    }
    fn generate(&self, rng: &mut Rng, tier: Tier) -> (Cfg, std::vec::Vec<Step>) {
        let cfg = Cfg { actors: 4 + rng.below(2) as usize };
        let n = cfg.actors as u64;
        let nsteps = if tier == Tier::Quick { 20 + rng.below(30) } else { 20 + rng.below(70) } as usize;
        let fault = if rng.chance(25) { 0 } else { 6 + rng.below(20) };
        let mut managers: BTreeSet<usize> = [1usize].into_iter().collect();
        let mut former: BTreeSet<usize> = BTreeSet::new();
        let mut steps = vec![];
        for _ in 0..nsteps {
            let any = |rng: &mut Rng| rng.below(n) as usize;
            let mv: std::vec::Vec<usize> = managers.iter().cloned().collect();
            let fv: std::vec::Vec<usize> = former.iter().cloned().collect();
            let operator = |rng: &mut Rng| if !fv.is_empty() && rng.chance(15) { *rng.pick(&fv) } else if mv.is_empty() || rng.chance(15) { rng.below(n) as usize } else { *rng.pick(&mv) };
            let sign = |rng: &mut Rng, who: usize| if rng.chance(fault) { if rng.chance(50) { None } else { Some(rng.below(n) as usize) } } else { Some(who) };
            let s = match rng.below(100) {
                0..=34 => { let op = operator(rng); Step::Mint { to: any(rng), amt: match rng.below(8) { 0 => 0, 1 => -1, _ => 1 + rng.below(10_000) as i128 }, operator: op, signer: sign(rng, op) } }
                35..=54 => { let op = operator(rng); Step::Clawback { from: any(rng), amt: match rng.below(6) { 0 => 0, 1 => 1_000_000, _ => 1 + rng.below(3_000) as i128 }, operator: op, signer: sign(rng, op) } }
                55..=69 => { let op = operator(rng); Step::SetAuthorized { id: any(rng), on: rng.chance(55), operator: op, signer: sign(rng, op) } }
                70..=84 => { let a = any(rng); managers.insert(a); former.remove(&a); Step::GrantManager { account: a, signer: sign(rng, 0) } }
                _ => { let a = if mv.is_empty() || rng.chance(20) { any(rng) } else { *rng.pick(&mv) }; if managers.remove(&a) { former.insert(a); } Step::RevokeManager { account: a, signer: sign(rng, 0) } }
            };
            steps.push(s);
        }
        (cfg, steps)
    }
    fn execute(&self, cfg: &Cfg, steps: &[Step], st: &mut Stats) -> Result<(), Violation> {
        let w = W::new(cfg.actors + 1, 100, 16);
        let e = &w.e;
        let a = |i: usize| w.actors[i].clone();
        let issuer = a(cfg.actors); // the last wallet is the asset issuer
        // set-up with blanket authorization (issuer flags, hand-over of the SAC admin), then exact entries only
        e.mock_all_auths_allowing_non_root_auth();
        let sac = e.register_stellar_asset_contract_v2(issuer.clone());
        sac.issuer().set_flag(soroban_sdk::testutils::IssuerFlags::RevocableFlag);
        sac.issuer().set_flag(soroban_sdk::testutils::IssuerFlags::ClawbackEnabledFlag);
        let sac_id = sac.address();
        let id = e.register(ExampleContract, (a(0), a(1), sac_id.clone()));
        StellarAssetClient::new(e, &sac_id).set_admin(&id);
        w.set_auth(&[]);
        let tok = TokenClient::new(e, &sac_id);
        let sacc = StellarAssetClient::new(e, &sac_id);
        let manager = symbol_short!("manager");
        let call = |f: &'static str, args: Vec<Val>, signer: Option<usize>| -> bool {
            match signer {
                Some(x) => w.set_auth(&[(x, Inv::new(&id, f, args.clone()))]),
                None => w.set_auth(&[]),
            }
            e.try_invoke_contract::<Val, soroban_sdk::Error>(&id, &Symbol::new(e, f), args).map(|r| r.is_ok()).unwrap_or(false)
        };
        let mut m = Model::default();
        m.managers.insert(1);
        let mut former: BTreeSet<usize> = BTreeSet::new();
        for (i, s) in steps.iter().enumerate() {
            let before = w.storage_digest(&[&id, &sac_id]);
            let (op_signer, op): (Option<Option<usize>>, Option<usize>) = match s {
                Step::Mint { operator, signer, .. } | Step::Clawback { operator, signer, .. } | Step::SetAuthorized { operator, signer, .. } => (Some(*signer), Some(*operator)),
                Step::GrantManager { signer, .. } | Step::RevokeManager { signer, .. } => (Some(*signer), Some(0)),
                Step::Wait { .. } => (None, None),
            };
            if let (Some(sg), Some(o)) = (op_signer, op) {
                if sg.is_none() {
                    st.hit("fault.auth_missing");
                } else if sg != Some(o) {
                    st.hit("fault.auth_foreign");
                }
                if former.contains(&o) && !m.managers.contains(&o) && matches!(s, Step::Mint { .. } | Step::Clawback { .. } | Step::SetAuthorized { .. }) {
                    st.hit("probe.former_manager_acts");
                }
            }
            let (kind, got, exp) = match s {
                Step::Wait { n } => {
                    w.advance(*n);
                    st.ledgers += *n as u64;
                    st.hit("clock.advance");
                    ("wait", true, true)
                }
                // Only the role / authorization clause is specified by the property. Whether the built-in asset contract
                // itself accepts an edge case (zero amounts, accounts without a balance entry, de-authorized parties) is the
                // host's business: there the model adopts the observed outcome.
                Step::Mint { to, amt, operator, signer } => {
                    let g = call("mint", (a(*to), *amt, a(*operator)).into_val(e), *signer);
                    let role = m.role_ok(*operator, *signer);
                    let sure = *amt > 0 && !m.deauthorized.contains(to);
                    let x = if !role { false } else if sure { true } else { g };
                    if x { *m.bal.entry(*to).or_insert(0) += amt; }
                    ("mint", g, x)
                }
                Step::Clawback { from, amt, operator, signer } => {
                    let g = call("clawback", (a(*from), *amt, a(*operator)).into_val(e), *signer);
                    let role = m.role_ok(*operator, *signer);
                    let b = *m.bal.get(from).unwrap_or(&0);
                    let sure = *amt > 0 && b >= *amt && !m.deauthorized.contains(from);
                    let x = if !role || *amt < 0 || b < *amt { false } else if sure { true } else { g };
                    if x { *m.bal.entry(*from).or_insert(0) -= amt; }
                    ("clawback", g, x)
                }
                Step::SetAuthorized { id: who, on, operator, signer } => {
                    let g = call("set_authorized", (a(*who), *on, a(*operator)).into_val(e), *signer);
                    let x = m.role_ok(*operator, *signer);
                    if x { if *on { m.deauthorized.remove(who); } else { m.deauthorized.insert(*who); } }
                    ("set_authorized", g, x)
                }
                Step::GrantManager { account, signer } => {
                    let g = call("grant_role", (a(*account), manager.clone(), a(0)).into_val(e), *signer);
                    let x = *signer == Some(0);
                    if x { m.managers.insert(*account); former.remove(account); }
                    ("grant_role", g, x)
                }
                Step::RevokeManager { account, signer } => {
                    let g = call("revoke_role", (a(*account), manager.clone(), a(0)).into_val(e), *signer);
                    let x = *signer == Some(0) && m.managers.contains(account);
                    if x { m.managers.remove(account); former.insert(*account); }
                    ("revoke_role", g, x)
                }
            };
            if kind != "wait" {
                st.tx(kind, got);
            }
            if got != exp {
                let role_reason = matches!(op_signer, Some(sg) if sg != op) || matches!((s, op), (Step::Mint { .. } | Step::Clawback { .. } | Step::SetAuthorized { .. }, Some(o)) if !m.managers.contains(&o));
                let check = match (got, role_reason) {
                    (true, true) => "guard.needs_principal",
                    (true, false) => "refine.must_fail",
                    (false, _) => "live.authorised_call_succeeds",
                };
                return Err(violation(check, kind, i, format!("{s:?}: real {got} model {exp}; managers {:?} deauthorized {:?} balances {:?}", m.managers, m.deauthorized, m.bal)));
            }
            if !got && w.storage_digest(&[&id, &sac_id]) != before {
                return Err(violation("fail.no_trace", kind, i, format!("state changed by refused {s:?}")));
            }
            for x in 0..cfg.actors {
                if tok.balance(&a(x)) != *m.bal.get(&x).unwrap_or(&0) {
                    return Err(violation("guard.effects_eq_model", "balance", i, format!("SAC balance of actor {x} is {}, model {:?} after {s:?}", tok.balance(&a(x)), m.bal.get(&x))));
                }
                if sacc.authorized(&a(x)) == m.deauthorized.contains(&x) {
                    return Err(violation("guard.effects_eq_model", "authorized", i, format!("SAC authorized({x}) disagrees with the model after {s:?}")));
                }
            }
            st.state(&(m.managers.clone(), m.deauthorized.len(), kind, got));
        }
        Ok(())
    }
}
