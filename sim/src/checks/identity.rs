//! C15: an RWA identity is verified only by valid claims from currently trusted issuers
//! (whole identity stack real; issuers composed from the library helpers; genuine ed25519 signatures).

use crate::core::*;
use crate::world::Base as W;
use ed25519_dalek::{Signer as _, SigningKey};
use serde::{Deserialize, Serialize};
use soroban_sdk::{contract, contractimpl, testutils::Ledger as _, vec as svec, xdr::ToXdr, Address, Bytes, BytesN, Env, Map, String as SString, Vec};
use std::collections::{BTreeMap, BTreeSet};
use stellar_tokens::rwa::{
    claim_issuer::{self as ci, Ed25519Verifier, Secp256k1Verifier, Secp256r1Verifier, SignatureVerifier},
    claim_topics_and_issuers::storage as cti,
    identity_claims::{self as ic, Claim},
    identity_registry_storage::{self as irs, CountryData, CountryRelation, IdentityType, IndividualCountryRelation},
    identity_verifier::storage as idv,
};

#[contract]
pub struct Cti;
#[contractimpl]
impl Cti {
    pub fn add_topic(e: &Env, t: u32) { cti::add_claim_topic(e, t) }
    pub fn remove_topic(e: &Env, t: u32) { cti::remove_claim_topic(e, t) }
    pub fn add_issuer(e: &Env, i: Address, ts: Vec<u32>) { cti::add_trusted_issuer(e, &i, &ts) }
    pub fn remove_issuer(e: &Env, i: Address) { cti::remove_trusted_issuer(e, &i) }
    pub fn update_issuer(e: &Env, i: Address, ts: Vec<u32>) { cti::update_issuer_claim_topics(e, &i, &ts) }
    pub fn get_claim_topics_and_issuers(e: &Env) -> Map<u32, Vec<Address>> { cti::get_claim_topics_and_issuers(e) }
    pub fn has_claim_topic(e: &Env, i: Address, t: u32) -> bool { cti::has_claim_topic(e, &i, t) }
}
#[contract]
pub struct Irs;
#[contractimpl]
impl Irs {
    pub fn add_identity(e: &Env, account: Address, identity: Address) {
        let cd = CountryData { country: CountryRelation::Individual(IndividualCountryRelation::Residence(840)), metadata: None };
        irs::add_identity(e, &account, &identity, IdentityType::Individual, &svec![e, cd])
    }
    pub fn stored_identity(e: &Env, account: Address) -> Address { irs::stored_identity(e, &account) }
    pub fn get_recovered_to(e: &Env, old: Address) -> Option<Address> { irs::get_recovered_to(e, &old) }
}
#[contract]
pub struct Ident;
#[contractimpl]
impl Ident {
    pub fn add_claim(e: &Env, topic: u32, scheme: u32, issuer: Address, signature: Bytes, data: Bytes, uri: SString) -> BytesN<32> {
        ic::add_claim(e, topic, scheme, &issuer, &signature, &data, &uri)
    }
    pub fn remove_claim(e: &Env, id: BytesN<32>) { ic::remove_claim(e, &id) }
    /// collaborator fault: an identity contract is the investor's own and need not be honest — with the flag set it hands
    /// out its stored claims with the `issuer` field rewritten to a contract of its choosing (which approves anything)
    pub fn get_claim(e: &Env, id: BytesN<32>) -> Claim {
        let mut c = ic::get_claim(e, &id);
        if let Some(rogue) = e.storage().instance().get::<_, Address>(&soroban_sdk::symbol_short!("rogue")) {
            c.issuer = rogue;
        }
        c
    }
    pub fn lie_about_issuer(e: &Env, rogue: Option<Address>) {
        match rogue {
            Some(r) => e.storage().instance().set(&soroban_sdk::symbol_short!("rogue"), &r),
            None => e.storage().instance().remove(&soroban_sdk::symbol_short!("rogue")),
        }
    }
    pub fn get_claim_ids_by_topic(e: &Env, topic: u32) -> Vec<BytesN<32>> { ic::get_claim_ids_by_topic(e, topic) }
}
#[contract]
pub struct Idv;
#[contractimpl]
impl Idv {
    pub fn __constructor(e: &Env, c: Address, r: Address) {
        idv::set_claim_topics_and_issuers(e, &c);
        idv::set_identity_registry_storage(e, &r);
    }
    pub fn verify_identity(e: &Env, account: Address) { idv::verify_identity(e, &account) }
}
/// an issuer nobody trusts that confirms every claim
#[contract]
pub struct Rogue;
#[contractimpl]
impl Rogue {
    pub fn is_claim_valid(_e: &Env, _identity: Address, _claim_topic: u32, _scheme: u32, _sig_data: Bytes, _claim_data: Bytes) {}
}
/// claim issuer composed exactly as the module documentation shows
#[contract]
pub struct Issuer;
#[contractimpl]
impl Issuer {
    /// Declared as returning a raw value so that one contract can also play a MALFORMED issuer: with the flag set it
    /// answers `false` instead of trapping (the shape the module documentation's first snippet suggests). The interface is
    /// "returns nothing, traps if invalid", so such an answer is not a confirmation.
    pub fn is_claim_valid(e: &Env, identity: Address, claim_topic: u32, scheme: u32, sig_data: Bytes, claim_data: Bytes) -> soroban_sdk::Val {
        if e.storage().instance().get(&soroban_sdk::symbol_short!("ansfalse")).unwrap_or(false) {
            return false.into();
        }
        // 101 ed25519, 102 secp256r1, 103 secp256k1 — each through the library's verifier for that scheme
        let key: Bytes = match scheme {
            101 => Ed25519Verifier::extract_signature_data(e, &sig_data).public_key.into(),
            102 => Secp256r1Verifier::extract_signature_data(e, &sig_data).public_key.into(),
            103 => Secp256k1Verifier::extract_signature_data(e, &sig_data).public_key.into(),
            _ => panic!("unsupported scheme"),
        };
        if !ci::is_key_allowed_for_topic(e, &key, scheme, claim_topic) {
            panic!("key not allowed for topic");
        }
        if ci::is_claim_expired(e, &claim_data) {
            panic!("claim expired");
        }
        if ci::is_claim_revoked(e, &identity, claim_topic, &claim_data) {
            panic!("claim revoked");
        }
        match scheme {
            101 => {
                let sd = Ed25519Verifier::extract_signature_data(e, &sig_data);
                Ed25519Verifier::verify(e, &Ed25519Verifier::build_message(e, &identity, claim_topic, &claim_data), &sd)
            }
            102 => {
                let sd = Secp256r1Verifier::extract_signature_data(e, &sig_data);
                Secp256r1Verifier::verify(e, &Secp256r1Verifier::build_message(e, &identity, claim_topic, &claim_data), &sd)
            }
            _ => {
                let sd = Secp256k1Verifier::extract_signature_data(e, &sig_data);
                Secp256k1Verifier::verify(e, &Secp256k1Verifier::build_message(e, &identity, claim_topic, &claim_data), &sd)
            }
        }
        ().into()
    }
    pub fn answer_false(e: &Env, on: bool) { e.storage().instance().set(&soroban_sdk::symbol_short!("ansfalse"), &on) }
    pub fn allow_key(e: &Env, pk: Bytes, registry: Address, scheme: u32, topic: u32) { ci::allow_key(e, &pk, &registry, scheme, topic) }
    pub fn remove_key(e: &Env, pk: Bytes, registry: Address, scheme: u32, topic: u32) { ci::remove_key(e, &pk, &registry, scheme, topic) }
    pub fn revoke(e: &Env, identity: Address, topic: u32, data: Bytes, revoked: bool) { ci::set_claim_revoked(e, &identity, topic, &data, revoked) }
    pub fn bump(e: &Env, identity: Address, topic: u32) { ci::invalidate_claim_signatures(e, &identity, topic) }
    pub fn is_revoked(e: &Env, identity: Address, topic: u32, data: Bytes) -> bool { ci::is_claim_revoked(e, &identity, topic, &data) }
    pub fn nonce(e: &Env, identity: Address, topic: u32) -> u32 { ci::get_current_nonce_for(e, &identity, topic) }
    pub fn key_allowed(e: &Env, pk: Bytes, scheme: u32, topic: u32) -> bool { ci::is_key_allowed_for_topic(e, &pk, scheme, topic) }
}

#[derive(Clone, Copy, Debug, Serialize, Deserialize, PartialEq)]
pub enum Tamper { None, Sig, Data, OtherTopic, OtherIdentity, StaleNonce }
#[derive(Clone, Debug, Serialize, Deserialize)]
pub enum Step {
    AddTopic { t: u32 },
    RemoveTopic { t: u32 },
    AddIssuer { i: usize, ts: std::vec::Vec<u32> },
    RemoveIssuer { i: usize },
    UpdateIssuer { i: usize, ts: std::vec::Vec<u32> },
    AllowKey { i: usize, key: usize, t: u32 },
    RemoveKey { i: usize, key: usize, t: u32 },
    Issue { inv: usize, i: usize, t: u32, key: usize, ttl: u64, data: u8, tamper: Tamper },
    RemoveClaim { inv: usize, i: usize, t: u32 },
    Revoke { i: usize, inv: usize, t: u32, data: u8, on: bool },
    Bump { i: usize, inv: usize, t: u32 },
    AdvanceTime { secs: u64 },
    /// collaborator fault: from now on (or no longer) issuer i answers `false` instead of trapping / returning nothing
    IssuerAnswersFalse { i: usize, on: bool },
    /// collaborator fault: investor inv's identity contract rewrites the issuer field of the claims it hands out
    IdentityLies { inv: usize, on: bool },
    Verify { inv: usize },
}
#[derive(Clone, Debug, Serialize, Deserialize)]
pub struct Cfg {
    pub investors: usize,
    pub issuers: usize,
    /// the two signing keys of the run (step key 0 / 1): 0, 1 = ed25519 · 2 = secp256r1 · 3 = secp256k1
    #[serde(default = "default_keys")]
    pub keys: [usize; 2],
}
fn default_keys() -> [usize; 2] {
    [0, 1]
}

#[derive(Clone, Debug)]
struct Held { key: usize, nonce: u32, valid_until: u64, data: u8 }
#[derive(Clone, Debug, Default)]
struct Model {
    topics: BTreeSet<u32>,
    trusted: BTreeMap<usize, BTreeSet<u32>>,
    keys: BTreeSet<(usize, usize, u32)>,               // (issuer, key, topic)
    held: BTreeMap<(usize, usize, u32), Held>,          // (investor, issuer, topic)
    revoked: BTreeSet<(usize, usize, u32, u8, u64)>,    // (issuer, investor, topic, data, valid_until) — revocation is per claim data
    nonce: BTreeMap<(usize, usize, u32), u32>,          // (issuer, investor, topic)
    revoked_at: BTreeMap<(usize, usize, u32, u8, u64), u64>,
    answers_false: BTreeSet<usize>,
    lying: BTreeSet<usize>, // when each revocation was switched on (reach probe only)
    now: u64,
}
impl Model {
    fn n(&self, i: usize, inv: usize, t: u32) -> u32 { *self.nonce.get(&(i, inv, t)).unwrap_or(&0) }
    fn claim_ok(&self, i: usize, inv: usize, t: u32, h: &Held) -> bool {
        !self.lying.contains(&inv) && !self.answers_false.contains(&i) && self.keys.contains(&(i, h.key, t)) && self.now < h.valid_until && !self.revoked.contains(&(i, inv, t, h.data, h.valid_until)) && h.nonce == self.n(i, inv, t)
    }
    fn verified(&self, inv: usize) -> bool {
        self.topics.iter().all(|t| self.trusted.iter().any(|(i, ts)| ts.contains(t) && self.held.get(&(inv, *i, *t)).map(|h| self.claim_ok(*i, inv, *t, h)).unwrap_or(false)))
    }
}
const T0: u64 = 1_700_000_000;

pub struct Identity;
impl Check for Identity {
    type Cfg = Cfg;
    type Step = Step;
    fn id(&self) -> &'static str { "identity" }
    fn runs(&self, tier: Tier) -> u64 {
        if tier == Tier::Quick {
            4000
        } else {
            200000
        }
    }
    fn components(&self) -> serde_json::Value {
        serde_json::json!({"real": ["identity_verifier::storage::{verify_identity, validate_claim}", "claim_topics_and_issuers::storage", "identity_registry_storage (add_identity, stored_identity)", "identity_claims (add/remove/get)", "claim_issuer helpers: key registry, expiry, revocation, nonce, Ed25519Verifier, Secp256r1Verifier, Secp256k1Verifier", "host ed25519_verify, secp256r1_verify, secp256k1_recover"], "stub": ["none (signatures are produced with ed25519-dalek, p256 and k256 in the harness)"]})
    }
    fn property_of(&self, check: &str) -> std::vec::Vec<&'static str> {
        // the identity-claims registry clauses are shared with C20
        if check.starts_with("claims.") || check.starts_with("trusted.") {
            vec!["C15", "C20"]
        } else if check.starts_with("verify.") {
            // "both parties pass identity verification" (C04) is decided by this very function: the RWA worlds check that
            // the token consults the verifier for the right parties, this clause that the verifier's answer is right
            vec!["C15", "C04"]
        } else {
            vec!["C15"]
        }
    }
    fn clock_step(&self, n: u32) -> Option<Step> {
        Some(Step::AdvanceTime { secs: n as u64 * 5 })
    }
    fn dup_ok(&self, _s: &Step) -> bool {
        true
    }
    fn reorder_ok(&self) -> bool {
        true
    }
    fn probes(&self, _prop: &str) -> std::vec::Vec<&'static str> {
        vec!["probe.rejected", "probe.required_topic_without_issuer", "probe.verified", "probe.verified_with_some_issuer_lacking_claim", "probe.verify_exactly_at_valid_until", "probe.verify_one_before_valid_until", "probe.verify_with_unexpired_claim_revoked_long_ago", "probe.claim_signed_ed25519", "probe.claim_signed_secp256r1", "probe.claim_signed_secp256k1", "probe.verified_secp256r1", "probe.verified_secp256k1", "probe.verify_with_claim_whose_issuer_answers_false", "probe.verify_while_identity_rewrites_issuer_of_valid_claims"]
    }
    fn generate(&self, rng: &mut Rng, tier: Tier) -> (Cfg, std::vec::Vec<Step>) {
        let cfg = Cfg { investors: 2, issuers: 2 + rng.below(2) as usize, keys: *rng.pick(&[[0, 1], [0, 2], [0, 3], [2, 3], [3, 2], [2, 1], [3, 1]]) };
        let nsteps = if tier == Tier::Quick { 30 + rng.below(40) } else { 30 + rng.below(80) } as usize;
        let mut steps = vec![];
        let mut topics: BTreeSet<u32> = BTreeSet::new();
        let mut gkeys: BTreeSet<(usize, usize, u32)> = BTreeSet::new(); // (issuer, key, topic) pairs the generator tried to allow
        // directed opening (swarm: only in some runs): one required topic, two trusted issuers for it,
        // a claim from only one of them — so that "any trusted issuer suffices" is exercised from step 6 on
        let mut deadlines: std::vec::Vec<u64> = vec![]; // offsets from T0 of valid_until of issued claims
        let mut elapsed: u64 = 0;
        if rng.chance(10) {
            // directed opening "one payload under two topics": the same issuer signs identical data with identical validity
            // for two required topics; one of the two claims is revoked (later perhaps un-revoked): the other is untouched
            let (t1, t2) = (rng.below(2) as u32, 2 + rng.below(2) as u32);
            topics.insert(t1);
            topics.insert(t2);
            let i = rng.below(cfg.issuers as u64) as usize;
            let (data, ttl) = (rng.below(3) as u8, 5_000 + rng.below(1000));
            let which = if rng.chance(50) { t1 } else { t2 };
            steps.extend([
                Step::AddTopic { t: t1 },
                Step::AddTopic { t: t2 },
                Step::AddIssuer { i, ts: vec![t1, t2] },
                Step::AllowKey { i, key: 0, t: t1 },
                Step::AllowKey { i, key: 0, t: t2 },
                Step::Issue { inv: 0, i, t: t1, key: 0, ttl, data, tamper: Tamper::None },
                Step::Issue { inv: 0, i, t: t2, key: 0, ttl, data, tamper: Tamper::None },
                Step::Verify { inv: 0 },
                Step::Revoke { i, inv: 0, t: which, data, on: true },
                Step::Verify { inv: 0 },
                Step::Revoke { i, inv: 0, t: t1 + t2 - which, data, on: true },
                Step::Revoke { i, inv: 0, t: which, data, on: false },
                Step::Verify { inv: 0 },
            ]);
            gkeys.insert((i, 0, t1));
            gkeys.insert((i, 0, t2));
        } else if rng.chance(15) {
            // directed opening "state set long ago": a long-lived claim is verified, then invalidated in one of three ways
            // (revoked / nonce bumped / key removed) or left alone, then more than 31 days pass without any call, then verify
            let t = rng.below(4) as u32;
            topics.insert(t);
            let i = rng.below(cfg.issuers as u64) as usize;
            let data = rng.below(3) as u8;
            steps.extend([
                Step::AddTopic { t },
                Step::AddIssuer { i, ts: vec![t] },
                Step::AllowKey { i, key: 0, t },
                Step::Issue { inv: 0, i, t, key: 0, ttl: 200_000_000, data, tamper: Tamper::None },
                Step::Verify { inv: 0 },
            ]);
            gkeys.insert((i, 0, t));
            match rng.below(4) {
                0 => steps.push(Step::Revoke { i, inv: 0, t, data, on: true }),
                1 => steps.push(Step::Bump { i, inv: 0, t }),
                2 => { gkeys.remove(&(i, 0, t)); steps.push(Step::RemoveKey { i, key: 0, t }) }
                _ => {}
            }
            let secs = 2_700_005 + rng.below(3) * 5_000_000;
            elapsed += secs;
            steps.extend([Step::Verify { inv: 0 }, Step::AdvanceTime { secs }, Step::Verify { inv: 0 }]);
        } else if rng.chance(60) {
            let t = rng.below(4) as u32;
            topics.insert(t);
            let (a, b) = if rng.chance(50) { (0, 1) } else { (1, 0) };
            let ttl = 10 + rng.below(40);
            deadlines.push(ttl);
            steps.extend([
                Step::AddTopic { t },
                Step::AddIssuer { i: a, ts: vec![t] },
                Step::AddIssuer { i: b, ts: vec![t] },
                Step::AllowKey { i: b, key: 0, t },
                Step::Issue { inv: 0, i: b, t, key: 0, ttl, data: 1, tamper: Tamper::None },
                Step::Verify { inv: 0 },
            ]);
            // a third of these openings go on with a collaborator fault while the claim is valid: the identity contract
            // rewrites the issuer field, or the issuer answers false — verification must fail, and recover afterwards
            if rng.chance(33) {
                let (on, off) = if rng.chance(50) { (Step::IdentityLies { inv: 0, on: true }, Step::IdentityLies { inv: 0, on: false }) } else { (Step::IssuerAnswersFalse { i: b, on: true }, Step::IssuerAnswersFalse { i: b, on: false }) };
                steps.extend([on, Step::Verify { inv: 0 }, off, Step::Verify { inv: 0 }]);
            }
        }
        for k in 0..nsteps {
            let t = rng.below(4) as u32;
            let i = rng.below(cfg.issuers as u64) as usize;
            let inv = rng.below(cfg.investors as u64) as usize;
            let tv: std::vec::Vec<u32> = topics.iter().cloned().collect();
            let some_topics = |rng: &mut Rng| -> std::vec::Vec<u32> { let mut v: std::vec::Vec<u32> = (0..1 + rng.below(3)).map(|_| if tv.is_empty() || rng.chance(8) { rng.below(4) as u32 } else { *rng.pick(&tv) }).collect(); v.sort(); v.dedup(); v };
            let s = match if k < 3 { k as u64 * 12 } else { rng.below(100) } {
                0..=9 => { topics.insert(t); Step::AddTopic { t } }
                10..=13 => { topics.remove(&t); Step::RemoveTopic { t } }
                14..=25 => Step::AddIssuer { i, ts: some_topics(rng) },
                26..=29 => Step::RemoveIssuer { i },
                30..=34 => Step::UpdateIssuer { i, ts: some_topics(rng) },
                35..=46 => {
                    // often a second topic for a key that is already allowed somewhere (one key, several topics, one registry)
                    let (i2, key) = match gkeys.iter().next().cloned() { Some((gi, gk, _)) if rng.chance(50) => (gi, gk), _ => (i, rng.below(2) as usize) };
                    gkeys.insert((i2, key, t));
                    Step::AllowKey { i: i2, key, t }
                }
                47..=52 => {
                    let gv: std::vec::Vec<(usize, usize, u32)> = gkeys.iter().cloned().collect();
                    if !gv.is_empty() && rng.chance(75) { let g = *rng.pick(&gv); gkeys.remove(&g); Step::RemoveKey { i: g.0, key: g.1, t: g.2 } } else { Step::RemoveKey { i, key: rng.below(2) as usize, t } }
                }
                53..=70 => {
                    // a fifth of the claims are long-lived (years): only those are still unexpired after the long waits the clock
                    // faults insert, so that revocation, nonce and key state must survive such a wait on their own
                    let ttl = match rng.below(5) { 0 => 10, 1 => 200_000_000 + rng.below(1000), _ => 100 + rng.below(1000) };
                    if ttl < 1_000_000 { deadlines.push(elapsed + ttl); } Step::Issue { inv, i, t, key: rng.below(2) as usize, ttl, data: rng.below(3) as u8, tamper: if rng.chance(20) { *rng.pick(&[Tamper::Sig, Tamper::Data, Tamper::OtherTopic, Tamper::OtherIdentity, Tamper::StaleNonce]) } else { Tamper::None } } }
                71..=73 => Step::RemoveClaim { inv, i, t },
                74..=78 => Step::Revoke { i, inv, t, data: rng.below(3) as u8, on: rng.chance(70) },
                79..=80 => Step::Bump { i, inv, t },
                81 => if rng.chance(50) { Step::IssuerAnswersFalse { i, on: rng.chance(65) } } else { Step::IdentityLies { inv, on: rng.chance(65) } },
                82..=88 => {
                    // targeted: land on valid_until-1 / valid_until / valid_until+1 of some issued claim
                    let fut: std::vec::Vec<u64> = deadlines.iter().cloned().filter(|d| *d > elapsed + 1).collect();
                    let secs = if !fut.is_empty() && rng.chance(70) { *rng.pick(&fut) + rng.below(3) - 1 - elapsed } else { match rng.below(3) { 0 => 5, 1 => 11, _ => 50 + rng.below(600) } };
                    elapsed += secs;
                    Step::AdvanceTime { secs }
                }
                _ => Step::Verify { inv: if rng.chance(70) { 0 } else { inv } },
            };
            // claims are often issued in batches: the same issuer signs the same payload with the same validity for a second
            // topic in the same ledger (identical data under two topics)
            if let Step::Issue { inv, i, t, key, ttl, data, tamper: Tamper::None } = &s {
                if rng.chance(25) {
                    let t2 = (*t + 1 + rng.below(3) as u32) % 4;
                    let twin = Step::Issue { inv: *inv, i: *i, t: t2, key: *key, ttl: *ttl, data: *data, tamper: Tamper::None };
                    steps.push(s.clone());
                    steps.push(twin);
                    continue;
                }
            }
            steps.push(s);
        }
        (cfg, steps)
    }
    fn execute(&self, cfg: &Cfg, steps: &[Step], st: &mut Stats) -> Result<(), Violation> {
        let w = W::new(cfg.investors, 100, 16);
        let e = &w.e;
        e.ledger().set_timestamp(T0);
        let reg = e.register(Cti, ());
        let rc = CtiClient::new(e, &reg);
        let irs_id = e.register(Irs, ());
        let idv_id = e.register(Idv, (reg.clone(), irs_id.clone()));
        let vc = IdvClient::new(e, &idv_id);
        let idents: std::vec::Vec<Address> = (0..cfg.investors).map(|_| e.register(Ident, ())).collect();
        for (k, id) in idents.iter().enumerate() {
            IrsClient::new(e, &irs_id).add_identity(&w.actors[k], id);
        }
        let issuers: std::vec::Vec<Address> = (0..cfg.issuers).map(|_| e.register(Issuer, ())).collect();
        let rogue = e.register(Rogue, ());
        let sks: std::vec::Vec<SigningKey> = (0..2u8).map(|k| SigningKey::from_bytes(&[k + 11; 32])).collect();
        let r1 = p256::ecdsa::SigningKey::from_slice(&[21u8; 32]).unwrap();
        let k1 = k256::ecdsa::SigningKey::from_slice(&[23u8; 32]).unwrap();
        let scheme_of = |k: usize| -> u32 { [101u32, 101, 102, 103][cfg.keys[k]] };
        let pk = |k: usize| -> Bytes {
            match cfg.keys[k] {
                2 => Bytes::from_slice(e, r1.verifying_key().to_encoded_point(false).as_bytes()),
                3 => Bytes::from_slice(e, k1.verifying_key().to_encoded_point(false).as_bytes()),
                x => Bytes::from_array(e, &sks[x].verifying_key().to_bytes()),
            }
        };
        // signature part of the signature data for each scheme (after the public key)
        let sign = |k: usize, msg: &Bytes, buf: &[u8]| -> std::vec::Vec<u8> {
            match cfg.keys[k] {
                2 => {
                    use p256::ecdsa::signature::hazmat::PrehashSigner;
                    let d = e.crypto().sha256(msg).to_array();
                    let sig: p256::ecdsa::Signature = r1.sign_prehash(&d).unwrap();
                    sig.normalize_s().unwrap_or(sig).to_bytes().to_vec()
                }
                3 => {
                    let d = e.crypto().keccak256(msg).to_array();
                    let (sig, rid) = k1.sign_prehash_recoverable(&d).unwrap();
                    let mut v = sig.to_bytes().to_vec();
                    v.extend_from_slice(&(rid.to_byte() as u32).to_be_bytes());
                    v
                }
                x => sks[x].sign(buf).to_bytes().to_vec(),
            }
        };
        let data_of = |d: u8, created: u64, until: u64| -> Bytes {
            let mut b = Bytes::new(e);
            b.extend_from_array(&created.to_be_bytes());
            b.extend_from_array(&until.to_be_bytes());
            b.extend_from_array(&[d; 5]);
            b
        };
        let mut m = Model { now: T0, ..Default::default() };
        let sv = |ts: &std::vec::Vec<u32>| Vec::from_iter(e, ts.iter().cloned());
        let valid_ts = |ts: &std::vec::Vec<u32>, topics: &BTreeSet<u32>| !ts.is_empty() && ts.iter().all(|t| topics.contains(t));
        for (i_step, s) in steps.iter().enumerate() {
            let mut parked: Option<Violation> = None;
            let mut outcome: Option<(&str, bool, bool)> = None;
            match s {
                Step::AddTopic { t } => { if rc.try_add_topic(t).is_ok() { m.topics.insert(*t); } }
                Step::RemoveTopic { t } => { if rc.try_remove_topic(t).is_ok() { m.topics.remove(t); for v in m.trusted.values_mut() { v.remove(t); } } }
                Step::AddIssuer { i, ts } => { let g = rc.try_add_issuer(&issuers[*i], &sv(ts)).is_ok(); let x = valid_ts(ts, &m.topics) && !m.trusted.contains_key(i); if x { m.trusted.insert(*i, ts.iter().cloned().collect()); } outcome = Some(("add_issuer", g, x)); }
                Step::RemoveIssuer { i } => { let g = rc.try_remove_issuer(&issuers[*i]).is_ok(); let x = m.trusted.remove(i).is_some(); outcome = Some(("remove_issuer", g, x)); }
                Step::UpdateIssuer { i, ts } => { let g = rc.try_update_issuer(&issuers[*i], &sv(ts)).is_ok(); let x = valid_ts(ts, &m.topics) && m.trusted.contains_key(i); if x { m.trusted.insert(*i, ts.iter().cloned().collect()); } outcome = Some(("update_issuer", g, x)); }
                Step::AllowKey { i, key, t } => {
                    let g = IssuerClient::new(e, &issuers[*i]).try_allow_key(&pk(*key), &reg, &scheme_of(*key), t).is_ok();
                    let x = m.trusted.get(i).map(|ts| ts.contains(t)).unwrap_or(false) && !m.keys.contains(&(*i, *key, *t));
                    if x { m.keys.insert((*i, *key, *t)); }
                    outcome = Some(("allow_key", g, x));
                }
                Step::RemoveKey { i, key, t } => { let g = IssuerClient::new(e, &issuers[*i]).try_remove_key(&pk(*key), &reg, &scheme_of(*key), t).is_ok(); let x = m.keys.remove(&(*i, *key, *t)); outcome = Some(("remove_key", g, x)); }
                Step::Revoke { i, inv, t, data, on } => {
                    // revoke every claim data this investor could hold with that payload: use the held one's validity if any
                    let until = m.held.get(&(*inv, *i, *t)).filter(|h| h.data == *data).map(|h| h.valid_until);
                    if let Some(u) = until {
                        let created = u - 1; // created_at is not part of the model; rebuilt below from the held claim
                        let _ = created;
                    }
                    if let Some(h) = m.held.get(&(*inv, *i, *t)).cloned() {
                        if h.data == *data {
                            let cd = data_of(h.data, T0, h.valid_until);
                            IssuerClient::new(e, &issuers[*i]).revoke(&idents[*inv], t, &cd, on);
                            if *on { m.revoked.insert((*i, *inv, *t, h.data, h.valid_until)); m.revoked_at.insert((*i, *inv, *t, h.data, h.valid_until), m.now); } else { m.revoked.remove(&(*i, *inv, *t, h.data, h.valid_until)); }
                            st.hit("fault.claim_revocation_toggled");
                        }
                    }
                }
                Step::IdentityLies { inv, on } => {
                    IdentClient::new(e, &idents[*inv]).lie_about_issuer(&if *on { Some(rogue.clone()) } else { None });
                    if *on { m.lying.insert(*inv); st.hit("fault.identity_contract_rewrites_issuer"); } else { m.lying.remove(inv); }
                }
                Step::IssuerAnswersFalse { i, on } => {
                    IssuerClient::new(e, &issuers[*i]).answer_false(on);
                    if *on { m.answers_false.insert(*i); st.hit("fault.issuer_answers_false"); } else { m.answers_false.remove(i); }
                }
                Step::Bump { i, inv, t } => { IssuerClient::new(e, &issuers[*i]).bump(&idents[*inv], t); *m.nonce.entry((*i, *inv, *t)).or_insert(0) += 1; st.hit("fault.nonce_bumped"); }
                Step::AdvanceTime { secs } => { m.now += secs; e.ledger().set_timestamp(m.now); let l = e.ledger().sequence(); e.ledger().set_sequence_number(l + (*secs / 5).min(6_000_000) as u32); st.seconds += secs; st.ledgers += secs / 5; st.hit("clock.advance"); }
                Step::RemoveClaim { inv, i, t } => {
                    let cid = ic::generate_claim_id(e, &issuers[*i], *t);
                    let g = IdentClient::new(e, &idents[*inv]).try_remove_claim(&cid).is_ok();
                    let x = m.held.remove(&(*inv, *i, *t)).is_some();
                    outcome = Some(("remove_claim", g, x));
                }
                Step::Issue { inv, i, t, key, ttl, data, tamper } => {
                    let until = m.now + ttl;
                    let cd = data_of(*data, T0, until);
                    let cur = m.n(*i, *inv, *t);
                    let (sign_topic, sign_ident, sign_nonce) = match tamper {
                        Tamper::OtherTopic => (*t + 1, *inv, cur),
                        Tamper::OtherIdentity => (*t, (*inv + 1) % cfg.investors, cur),
                        Tamper::StaleNonce => (*t, *inv, cur.wrapping_add(1)),
                        _ => (*t, *inv, cur),
                    };
                    // message = network id ‖ issuer ‖ identity ‖ topic ‖ nonce ‖ data   (rebuilt here, not taken from the library)
                    let mut msg = Bytes::from_array(e, &e.ledger().network_id().to_array());
                    msg.append(&issuers[*i].clone().to_xdr(e));
                    msg.append(&idents[sign_ident].clone().to_xdr(e));
                    msg.extend_from_array(&sign_topic.to_be_bytes());
                    msg.extend_from_array(&sign_nonce.to_be_bytes());
                    msg.append(&if *tamper == Tamper::Data { data_of(data.wrapping_add(1), T0, until) } else { cd.clone() });
                    let mut buf = std::vec::Vec::new();
                    for b in msg.iter() { buf.push(b); }
                    let mut sig = sign(*key, &msg, &buf);
                    if *tamper == Tamper::Sig { sig[3] ^= 0x40; }
                    let mut sd = pk(*key);
                    sd.extend_from_slice(&sig);
                    st.hit(["probe.claim_signed_ed25519", "probe.claim_signed_ed25519", "probe.claim_signed_secp256r1", "probe.claim_signed_secp256k1"][cfg.keys[*key]]);
                    if *tamper != Tamper::None { st.hit("fault.tampered_claim"); }
                    let g = IdentClient::new(e, &idents[*inv]).try_add_claim(t, &scheme_of(*key), &issuers[*i], &sd, &cd, &SString::from_str(e, "u")).is_ok();
                    let x = *tamper == Tamper::None && !m.answers_false.contains(i) && m.keys.contains(&(*i, *key, *t)) && m.now < until && !m.revoked.contains(&(*i, *inv, *t, *data, until));
                    if x { m.held.insert((*inv, *i, *t), Held { key: *key, nonce: cur, valid_until: until, data: *data }); }
                    outcome = Some(("add_claim", g, x));
                }
                Step::Verify { inv } => {
                    let g = vc.try_verify_identity(&w.actors[*inv]).is_ok();
                    let x = m.verified(*inv);
                    st.hit(if g { "probe.verified" } else { "probe.rejected" });
                    if g {
                        for (k, h) in m.held.iter().filter(|(k, _)| k.0 == *inv) {
                            if m.topics.contains(&k.2) && m.claim_ok(k.1, k.0, k.2, h) {
                                match cfg.keys[h.key] { 2 => st.hit("probe.verified_secp256r1"), 3 => st.hit("probe.verified_secp256k1"), _ => {} }
                            }
                        }
                        // was some required topic satisfied by an issuer that is not the first one listed for it?
                        for t in &m.topics {
                            let lst: std::vec::Vec<usize> = m.trusted.iter().filter(|(_, ts)| ts.contains(t)).map(|(i, _)| *i).collect();
                            if lst.len() > 1 && lst.iter().any(|i| !m.held.get(&(*inv, *i, *t)).map(|h| m.claim_ok(*i, *inv, *t, h)).unwrap_or(false)) { st.hit("probe.verified_with_some_issuer_lacking_claim"); }
                        }
                    }
                    for h in m.held.iter().filter(|(k, _)| k.0 == *inv) {
                        if h.1.valid_until == m.now { st.hit("probe.verify_exactly_at_valid_until"); }
                        if h.1.valid_until == m.now + 1 { st.hit("probe.verify_one_before_valid_until"); }
                    }
                    if m.topics.iter().any(|t| !m.trusted.values().any(|ts| ts.contains(t))) { st.hit("probe.required_topic_without_issuer"); }
                    // a still unexpired, revoked claim of this investor whose revocation is older than 31 days of ledgers
                    if m.held.iter().any(|(k, h)| k.0 == *inv && m.now < h.valid_until && m.revoked.contains(&(k.1, k.0, k.2, h.data, h.valid_until)) && m.revoked_at.get(&(k.1, k.0, k.2, h.data, h.valid_until)).map(|at| m.now - at > 2_700_000).unwrap_or(false)) {
                        st.hit("probe.verify_with_unexpired_claim_revoked_long_ago");
                    }
                    if m.lying.contains(inv) && m.held.iter().any(|(k, h)| k.0 == *inv && { let mut m2 = m.clone(); m2.lying.clear(); m2.claim_ok(k.1, k.0, k.2, h) }) {
                        st.hit("probe.verify_while_identity_rewrites_issuer_of_valid_claims");
                    }
                    if m.held.iter().any(|(k, h)| k.0 == *inv && m.answers_false.contains(&k.1) && { let mut m2 = m.clone(); m2.answers_false.clear(); m2.claim_ok(k.1, k.0, k.2, h) }) {
                        st.hit("probe.verify_with_claim_whose_issuer_answers_false");
                    }
                    if g != x {
                        let orphan: std::vec::Vec<u32> = m.topics.iter().filter(|t| !m.trusted.values().any(|ts| ts.contains(t))).cloned().collect();
                        let disc = if g && !orphan.is_empty() { "topic-without-issuer" } else if g { "accepted" } else { "rejected" };
                        self.clause(st, &mut parked, violation("verify.iff_valid_claims_of_trusted_issuers", disc, i_step, format!("verify_identity(investor {inv}) = {g}, model {x}; required topics {:?}, topics without a trusted issuer {orphan:?}, trusted {:?}, held {:?}, keys {:?}, now {}", m.topics, m.trusted, m.held.keys().collect::<std::vec::Vec<_>>(), m.keys, m.now)))?;
                    }
                }
            }
            if let Some((kind, got, exp)) = outcome {
                st.tx(kind, got);
                if got != exp {
                    let check = if kind == "add_claim" { "add_claim.accepts_iff_valid" } else { "registry.model_eq" };
                    return Err(violation(check, kind, i_step, format!("{s:?}: real {got} model {exp}; now {} keys {:?} trusted {:?}", m.now, m.keys, m.trusted)));
                }
            }
            // the identity's claim registry (by topic and by id) holds exactly the claims added and not removed
            for (ix, idc) in idents.iter().enumerate() {
                if m.lying.contains(&ix) {
                    continue; // its answers are not the registry's while it lies
                }
                let icl = IdentClient::new(e, idc);
                for t in 0..4u32 {
                    let want: BTreeSet<usize> = m.held.keys().filter(|k| k.0 == ix && k.2 == t).map(|k| k.1).collect();
                    let ids = match icl.try_get_claim_ids_by_topic(&t) {
                        Ok(Ok(v)) => v,
                        _ if want.is_empty() => continue,
                        other => return Err(violation("claims.getters_eq_model", "get_claim_ids_by_topic", i_step, format!("investor {ix} topic {t}: {:?}, model issuers {want:?} after {s:?}", other.map(|x| x.is_ok())))),
                    };
                    let mut seen: BTreeSet<usize> = BTreeSet::new();
                    for cid in ids.iter() {
                        let cl = match icl.try_get_claim(&cid) {
                            Ok(Ok(c)) => c,
                            _ => return Err(violation("claims.getters_eq_model", "get_claim", i_step, format!("investor {ix} topic {t}: a listed claim id does not resolve after {s:?}"))),
                        };
                        let who = issuers.iter().position(|a| *a == cl.issuer);
                        match who {
                            Some(k) if cl.topic == t && want.contains(&k) && seen.insert(k) && cid == ic::generate_claim_id(e, &issuers[k], t) => {}
                            _ => return Err(violation("claims.enum_each_once", "get_claim_ids_by_topic", i_step, format!("investor {ix} topic {t}: listed claim of issuer {who:?} topic {} is not (or not once) in the model {want:?} after {s:?}", cl.topic))),
                        }
                    }
                    if seen != want {
                        return Err(violation("claims.getters_eq_model", "get_claim_ids_by_topic", i_step, format!("investor {ix} topic {t}: lists issuers {seen:?}, model {want:?} after {s:?}")));
                    }
                }
            }
            // "neither revoked": the issuer's revocation flag of every held claim equals the model — per claim, i.e. per
            // (identity, topic, data): revoking one topic's claim says nothing about an identical payload under another topic
            for ((inv, ix, t), h) in m.held.iter() {
                let real = IssuerClient::new(e, &issuers[*ix]).try_is_revoked(&idents[*inv], t, &data_of(h.data, T0, h.valid_until));
                let want = m.revoked.contains(&(*ix, *inv, *t, h.data, h.valid_until));
                if real != Ok(Ok(want)) {
                    self.clause(st, &mut parked, violation("revoked.flag_eq_model", "is_claim_revoked", i_step, format!("issuer {ix} investor {inv} topic {t} data {}: {real:?}, model {want} after {s:?}", h.data)))?;
                }
            }
            // "an issuer that is currently trusted for that topic": the registry's topic → issuers map equals the model
            {
                let real = rc.get_claim_topics_and_issuers();
                let mut got: BTreeMap<u32, BTreeSet<usize>> = BTreeMap::new();
                for (t, list) in real.iter() {
                    let set = got.entry(t).or_default();
                    for a in list.iter() {
                        match issuers.iter().position(|x| *x == a) {
                            Some(ix) => { set.insert(ix); }
                            None => self.clause(st, &mut parked, violation("trusted.registry_eq_model", "get_claim_topics_and_issuers", i_step, format!("topic {t} lists an unknown address after {s:?}")))?,
                        }
                    }
                }
                let want: BTreeMap<u32, BTreeSet<usize>> = m.topics.iter().map(|t| (*t, m.trusted.iter().filter(|(_, ts)| ts.contains(t)).map(|(i, _)| *i).collect())).collect();
                if got != want {
                    self.clause(st, &mut parked, violation("trusted.registry_eq_model", "get_claim_topics_and_issuers", i_step, format!("registry says {got:?}, model {want:?} after {s:?}")))?;
                }
            }
            // "signed by a key currently allowed for the topic": the issuer's key / topic relation equals the model
            for (ix, iss) in issuers.iter().enumerate() {
                let icl = IssuerClient::new(e, iss);
                for key in 0..2usize {
                    for t in 0..4u32 {
                        let real = icl.try_key_allowed(&pk(key), &scheme_of(key), &t);
                        let want = m.keys.contains(&(ix, key, t));
                        if real != Ok(Ok(want)) {
                            self.clause(st, &mut parked, violation("issuer.key_allowed_eq_model", "is_key_allowed_for_topic", i_step, format!("issuer {ix} key {key} topic {t}: {real:?}, model {want} after {s:?}; keys {:?}", m.keys)))?;
                        }
                    }
                }
            }
            if let Some(v) = parked.take() {
                return Err(v);
            }
            st.state(&(m.topics.clone(), m.trusted.clone(), m.held.len(), m.keys.len()));
        }
        Ok(())
    }
}
