//! C16: pause, allow/block lists and supply cap cannot be bypassed (examples from source + library-wired wrappers).

use crate::core::*;
use crate::world::{Base as W, Inv};
use serde::{Deserialize, Serialize};
#[allow(unused_imports)]
use soroban_sdk::{contract, contractimpl, Address, Env, IntoVal, MuxedAddress, String as SString, Symbol, Val, Vec};
use std::collections::{BTreeMap, BTreeSet};
use stellar_tokens::fungible::{allowlist::AllowList, blocklist::BlockList, burnable::FungibleBurnable, Base, FungibleToken};

mod pausable_ex {
    #[path = "/repo/examples/fungible-pausable/src/contract.rs"]
    pub mod c;
}
mod allow_ex {
    #[path = "/repo/examples/fungible-allowlist/src/contract.rs"]
    pub mod c;
}
mod block_ex {
    #[path = "/repo/examples/fungible-blocklist/src/contract.rs"]
    pub mod c;
}
mod counter_ex {
    #[path = "/repo/examples/pausable/src/contract.rs"]
    pub mod c;
}
mod capped_ex {
    #[path = "/repo/examples/fungible-capped/src/contract.rs"]
    pub mod c;
}

/// library-level wiring of every AllowList override (what an integrator following the docs builds)
#[contract]
pub struct AllowTok;
#[contractimpl]
impl AllowTok {
    pub fn mint(e: &Env, to: Address, amount: i128) {
        Base::mint(e, &to, amount)
    }
    pub fn allow_user(e: &Env, user: Address, _operator: Address) {
        AllowList::allow_user(e, &user)
    }
    pub fn disallow_user(e: &Env, user: Address, _operator: Address) {
        AllowList::disallow_user(e, &user)
    }
    pub fn allowed(e: &Env, user: Address) -> bool {
        AllowList::allowed(e, &user)
    }
}
#[contractimpl(contracttrait)]
impl FungibleToken for AllowTok {
    type ContractType = AllowList;
}
#[contractimpl]
impl FungibleBurnable for AllowTok {
    fn burn(e: &Env, from: Address, amount: i128) {
        AllowList::burn(e, &from, amount)
    }
    fn burn_from(e: &Env, spender: Address, from: Address, amount: i128) {
        AllowList::burn_from(e, &spender, &from, amount)
    }
}
#[contract]
pub struct BlockTok;
#[contractimpl]
impl BlockTok {
    pub fn mint(e: &Env, to: Address, amount: i128) {
        Base::mint(e, &to, amount)
    }
    pub fn block_user(e: &Env, user: Address, _operator: Address) {
        BlockList::block_user(e, &user)
    }
    pub fn unblock_user(e: &Env, user: Address, _operator: Address) {
        BlockList::unblock_user(e, &user)
    }
    pub fn blocked(e: &Env, user: Address) -> bool {
        BlockList::blocked(e, &user)
    }
}
#[contractimpl(contracttrait)]
impl FungibleToken for BlockTok {
    type ContractType = BlockList;
}
#[contractimpl]
impl FungibleBurnable for BlockTok {
    fn burn(e: &Env, from: Address, amount: i128) {
        BlockList::burn(e, &from, amount)
    }
    fn burn_from(e: &Env, spender: Address, from: Address, amount: i128) {
        BlockList::burn_from(e, &spender, &from, amount)
    }
}

#[derive(Clone, Copy, Debug, Serialize, Deserialize, PartialEq)]
pub enum Kind {
    PausableExample,
    AllowExample,
    AllowWrapper,
    BlockExample,
    BlockWrapper,
    CappedExample,
    /// examples/pausable: `increment` is #[when_not_paused], `emergency_reset` is #[when_paused]
    PausableCounter,
}
#[derive(Clone, Debug, Serialize, Deserialize)]
pub enum Step {
    /// the clock (inserted by the core's clock faults): nothing but time passes
    Wait { n: u32 },
    Increment,
    EmergencyReset,
    Pause { caller: usize, signed: bool },
    Unpause { caller: usize, signed: bool },
    List { user: usize, on: bool, operator: usize, signed: bool }, // allow / block (on) — disallow / unblock (off)
    Mint { to: usize, #[serde(with = "i128s")] amt: i128 },
    Transfer { from: usize, to: usize, #[serde(with = "i128s")] amt: i128 },
    TransferFrom { spender: usize, from: usize, to: usize, #[serde(with = "i128s")] amt: i128 },
    Approve { owner: usize, spender: usize, #[serde(with = "i128s")] amt: i128 },
    Burn { from: usize, #[serde(with = "i128s")] amt: i128 },
    BurnFrom { spender: usize, from: usize, #[serde(with = "i128s")] amt: i128 },
}
#[derive(Clone, Debug, Serialize, Deserialize)]
pub struct Cfg {
    pub kind: Kind,
    pub actors: usize,
    #[serde(with = "i128s")]
    pub cap: i128,
}
// actor 0 = owner / admin (initial holder), actor 1 = manager
#[derive(Clone, Debug, Default)]
struct Model {
    bal: BTreeMap<usize, i128>,
    supply: i128,
    allow: BTreeMap<(usize, usize), i128>,
    paused: bool,
    listed: BTreeSet<usize>,
    counter: i32,
}
impl Model {
    fn b(&self, a: usize) -> i128 {
        *self.bal.get(&a).unwrap_or(&0)
    }
    fn vet(&self, kind: Kind, a: usize) -> bool {
        match kind {
            Kind::AllowExample | Kind::AllowWrapper => self.listed.contains(&a),
            Kind::BlockExample | Kind::BlockWrapper => !self.listed.contains(&a),
            _ => true,
        }
    }
    fn has_burn(kind: Kind) -> bool {
        kind != Kind::BlockExample && kind != Kind::CappedExample
    }
    fn apply(&mut self, cfg: &Cfg, s: &Step) -> bool {
        let k = cfg.kind;
        let gated = k == Kind::PausableExample && self.paused;
        let pausable = matches!(k, Kind::PausableExample | Kind::PausableCounter);
        if k == Kind::PausableCounter && !matches!(s, Step::Pause { .. } | Step::Unpause { .. } | Step::Increment | Step::EmergencyReset | Step::Wait { .. }) {
            return false; // the counter example has no token entry points
        }
        match *s {
            Step::Wait { .. } => true,
            Step::Increment => {
                if k != Kind::PausableCounter || self.paused {
                    return false;
                }
                self.counter += 1;
                true
            }
            Step::EmergencyReset => {
                if k != Kind::PausableCounter || !self.paused {
                    return false;
                }
                self.counter = 0;
                true
            }
            Step::Pause { caller, signed } => {
                if !pausable || !signed || caller != 0 || self.paused {
                    return false;
                }
                self.paused = true;
                true
            }
            Step::Unpause { caller, signed } => {
                if !pausable || !signed || caller != 0 || !self.paused {
                    return false;
                }
                self.paused = false;
                true
            }
            Step::List { user, on, operator, signed } => {
                if matches!(k, Kind::PausableExample | Kind::CappedExample | Kind::PausableCounter) {
                    return false;
                }
                let needs_role = matches!(k, Kind::AllowExample | Kind::BlockExample);
                if needs_role && (!signed || operator != 1) {
                    return false;
                }
                if on {
                    self.listed.insert(user);
                } else {
                    self.listed.remove(&user);
                }
                true
            }
            Step::Mint { to, amt } => {
                let can = match k {
                    Kind::PausableExample => !gated,
                    Kind::CappedExample => self.supply.checked_add(amt).map(|s| s <= cfg.cap).unwrap_or(false),
                    Kind::AllowExample | Kind::BlockExample => false, // the examples expose no mint
                    _ => true,
                };
                if !can || amt < 0 || self.supply.checked_add(amt).is_none() {
                    return false;
                }
                self.supply += amt;
                *self.bal.entry(to).or_insert(0) += amt;
                true
            }
            Step::Transfer { from, to, amt } => {
                if gated || !self.vet(k, from) || !self.vet(k, to) || amt < 0 || self.b(from) < amt {
                    return false;
                }
                *self.bal.entry(from).or_insert(0) -= amt;
                *self.bal.entry(to).or_insert(0) += amt;
                true
            }
            Step::TransferFrom { spender, from, to, amt } => {
                let al = *self.allow.get(&(from, spender)).unwrap_or(&0);
                if gated || !self.vet(k, from) || !self.vet(k, to) || amt < 0 || al < amt || self.b(from) < amt {
                    return false;
                }
                if amt > 0 {
                    self.allow.insert((from, spender), al - amt);
                }
                *self.bal.entry(from).or_insert(0) -= amt;
                *self.bal.entry(to).or_insert(0) += amt;
                true
            }
            Step::Approve { owner, spender, amt } => {
                if !self.vet(k, owner) || amt < 0 {
                    return false;
                }
                self.allow.insert((owner, spender), amt);
                true
            }
            Step::Burn { from, amt } => {
                if !Self::has_burn(k) || gated || !self.vet(k, from) || amt < 0 || self.b(from) < amt {
                    return false;
                }
                *self.bal.entry(from).or_insert(0) -= amt;
                self.supply -= amt;
                true
            }
            Step::BurnFrom { spender, from, amt } => {
                let al = *self.allow.get(&(from, spender)).unwrap_or(&0);
                if !Self::has_burn(k) || gated || !self.vet(k, from) || amt < 0 || al < amt || self.b(from) < amt {
                    return false;
                }
                if amt > 0 {
                    self.allow.insert((from, spender), al - amt);
                }
                *self.bal.entry(from).or_insert(0) -= amt;
                self.supply -= amt;
                true
            }
        }
    }
}

pub struct Gates;

impl Check for Gates {
    type Cfg = Cfg;
    type Step = Step;
    fn id(&self) -> &'static str {
        "gates"
    }
    fn runs(&self, tier: Tier) -> u64 {
        if tier == Tier::Quick {
            6000
        } else {
            200000
        }
    }
    fn components(&self) -> serde_json::Value {
        serde_json::json!({"real": ["examples/fungible-{pausable,allowlist,blocklist,capped} and examples/pausable (from source)", "AllowList / BlockList wrappers wiring every library override", "pausable storage + when_not_paused macro", "capped::check_cap"], "stub": ["Wallet"]})
    }
    fn property_of(&self, check: &str) -> std::vec::Vec<&'static str> {
        if check.starts_with("roles.") {
            vec!["C06", "C16"]
        } else {
            vec!["C16"]
        }
    }
    fn clock_step(&self, n: u32) -> Option<Step> {
        Some(Step::Wait { n })
    }
    fn clock_budget(&self) -> u64 {
        6000000
    }
    fn dup_ok(&self, _s: &Step) -> bool {
        true
    }
    fn reorder_ok(&self) -> bool {
        true
    }
    fn generate(&self, rng: &mut Rng, tier: Tier) -> (Cfg, std::vec::Vec<Step>) {
        let kind = *rng.pick(&[Kind::PausableExample, Kind::PausableExample, Kind::AllowExample, Kind::AllowWrapper, Kind::BlockExample, Kind::BlockWrapper, Kind::CappedExample, Kind::CappedExample, Kind::PausableCounter]);
        let cfg = Cfg { kind, actors: 4, cap: match rng.below(4) { 0 => 0, 1 => i128::MAX, _ => 1000 + rng.below(100_000) as i128 } };
        let n = cfg.actors as u64;
        let nsteps = if tier == Tier::Quick { 25 + rng.below(40) } else { 25 + rng.below(90) } as usize;
        let mut m = Model::default();
        if !matches!(kind, Kind::CappedExample | Kind::AllowWrapper | Kind::BlockWrapper | Kind::PausableCounter) {
            m.bal.insert(0, 1_000_000);
            m.supply = 1_000_000;
        }
        if kind == Kind::AllowExample {
            m.listed.insert(0);
        }
        let mut steps = vec![];
        for _ in 0..nsteps {
            if kind == Kind::PausableCounter {
                let any = |rng: &mut Rng| rng.below(n) as usize;
                let s = match rng.below(10) {
                    0..=1 => Step::Pause { caller: if rng.chance(85) { 0 } else { any(rng) }, signed: !rng.chance(8) },
                    2..=3 => Step::Unpause { caller: if rng.chance(85) { 0 } else { any(rng) }, signed: !rng.chance(8) },
                    4..=7 => Step::Increment,
                    _ => Step::EmergencyReset,
                };
                m.apply(&cfg, &s);
                steps.push(s);
                continue;
            }
            let any = |rng: &mut Rng| rng.below(n) as usize;
            let holders: std::vec::Vec<usize> = (0..cfg.actors).filter(|a| m.b(*a) > 0).collect();
            let holder = |rng: &mut Rng| if holders.is_empty() || rng.chance(12) { rng.below(n) as usize } else { *rng.pick(&holders) };
            let amt = |rng: &mut Rng, b: i128| match rng.below(6) { 0 => 0, 1 => b, 2 => b.saturating_add(1), _ => if b > 0 { 1 + rng.below(b.min(10_000) as u64) as i128 } else { 1 } };
            let s = match rng.below(100) {
                0..=14 => match kind {
                    Kind::PausableExample => if rng.chance(50) { Step::Pause { caller: if rng.chance(85) { 0 } else { any(rng) }, signed: !rng.chance(8) } } else { Step::Unpause { caller: if rng.chance(85) { 0 } else { any(rng) }, signed: !rng.chance(8) } },
                    Kind::CappedExample => { let room = cfg.cap.saturating_sub(m.supply); Step::Mint { to: any(rng), amt: match rng.below(5) { 0 => room, 1 => room.saturating_add(1), 2 => i128::MAX, _ => amt(rng, room.min(5000)) } } }
                    _ => Step::List { user: any(rng), on: rng.chance(55), operator: if rng.chance(88) { 1 } else { any(rng) }, signed: !rng.chance(8) },
                },
                15..=24 => Step::Mint { to: any(rng), amt: 1 + rng.below(5000) as i128 },
                25..=49 => { let from = holder(rng); Step::Transfer { from, to: any(rng), amt: amt(rng, m.b(from)) } }
                50..=64 => {
                    let ps: std::vec::Vec<(usize, usize)> = m.allow.iter().filter(|(_, v)| **v > 0).map(|(k, _)| *k).collect();
                    let (from, spender) = if ps.is_empty() || rng.chance(15) { (holder(rng), any(rng)) } else { *rng.pick(&ps) };
                    Step::TransferFrom { spender, from, to: any(rng), amt: amt(rng, m.b(from)) }
                }
                65..=76 => Step::Approve { owner: holder(rng), spender: any(rng), amt: if rng.chance(10) { 0 } else { 1_000_000_000 } },
                77..=88 => { let from = holder(rng); Step::Burn { from, amt: amt(rng, m.b(from)) } }
                _ => {
                    let ps: std::vec::Vec<(usize, usize)> = m.allow.iter().filter(|(_, v)| **v > 0).map(|(k, _)| *k).collect();
                    let (from, spender) = if ps.is_empty() || rng.chance(15) { (holder(rng), any(rng)) } else { *rng.pick(&ps) };
                    Step::BurnFrom { spender, from, amt: amt(rng, m.b(from)) }
                }
            };
            m.apply(&cfg, &s);
            steps.push(s);
        }
        (cfg, steps)
    }
    fn execute(&self, cfg: &Cfg, steps: &[Step], st: &mut Stats) -> Result<(), Violation> {
        let w = W::new(cfg.actors, 100, 16);
        let e = &w.e;
        let a = |i: usize| w.actors[i].clone();
        let nm = SString::from_str(e, "n");
        let id = match cfg.kind {
            Kind::PausableExample => e.register(pausable_ex::c::ExampleContract, (nm.clone(), nm.clone(), a(0), 1_000_000i128)),
            Kind::AllowExample => e.register(allow_ex::c::ExampleContract, (nm.clone(), nm.clone(), a(0), a(1), 1_000_000i128)),
            Kind::BlockExample => e.register(block_ex::c::ExampleContract, (nm.clone(), nm.clone(), a(0), a(1), 1_000_000i128)),
            Kind::CappedExample => e.register(capped_ex::c::ExampleContract, (cfg.cap,)),
            Kind::PausableCounter => e.register(counter_ex::c::ExampleContract, (a(0),)),
            Kind::AllowWrapper => e.register(AllowTok, ()),
            Kind::BlockWrapper => e.register(BlockTok, ()),
        };
        let mut m = Model::default();
        if !matches!(cfg.kind, Kind::CappedExample | Kind::AllowWrapper | Kind::BlockWrapper | Kind::PausableCounter) {
            m.bal.insert(0, 1_000_000);
            m.supply = 1_000_000;
        }
        if cfg.kind == Kind::AllowExample {
            m.listed.insert(0);
        }
        let call = |f: &'static str, args: Vec<Val>, signer: Option<usize>| -> bool {
            match signer {
                Some(x) => w.set_auth(&[(x, Inv::new(&id, f, args.clone()))]),
                None => w.set_auth(&[]),
            }
            e.try_invoke_contract::<Val, soroban_sdk::Error>(&id, &Symbol::new(e, f), args).map(|r| r.is_ok()).unwrap_or(false)
        };
        let qi = |f: &str, args: Vec<Val>| -> i128 { e.invoke_contract::<i128>(&id, &Symbol::new(e, f), args) };
        for (i, s) in steps.iter().enumerate() {
            let before = w.storage_digest(&[&id]);
            let mut returned: Option<i32> = None;
            let mut list_events: Option<usize> = None;
            let (kind, got) = match s {
                Step::Wait { n } => {
                    w.advance(*n);
                    st.ledgers += *n as u64;
                    st.hit("clock.advance");
                    ("wait", true)
                }
                Step::Increment => {
                    w.set_auth(&[]);
                    let r = e.try_invoke_contract::<i32, soroban_sdk::Error>(&id, &Symbol::new(e, "increment"), ().into_val(e));
                    returned = r.ok().and_then(|x| x.ok());
                    ("increment", returned.is_some())
                }
                Step::EmergencyReset => ("emergency_reset", call("emergency_reset", ().into_val(e), None)),
                Step::Pause { caller, signed } => ("pause", call("pause", (a(*caller),).into_val(e), signed.then_some(*caller))),
                Step::Unpause { caller, signed } => ("unpause", call("unpause", (a(*caller),).into_val(e), signed.then_some(*caller))),
                Step::List { user, on, operator, signed } => {
                    let f = match (cfg.kind, on) {
                        (Kind::AllowExample | Kind::AllowWrapper, true) => "allow_user",
                        (Kind::AllowExample | Kind::AllowWrapper, false) => "disallow_user",
                        (_, true) => "block_user",
                        (_, false) => "unblock_user",
                    };
                    let g = call(f, (a(*user), a(*operator)).into_val(e), signed.then_some(*operator));
                    // the list events of this very invocation (user_allowed / user_disallowed / user_blocked / user_unblocked)
                    list_events = Some(w.last_events().iter().filter(|ev| ev.name.starts_with("user_")).count());
                    ("list", g)
                }
                Step::Mint { to, amt } => ("mint", call("mint", (a(*to), *amt).into_val(e), Some(0))),
                Step::Transfer { from, to, amt } => ("transfer", call("transfer", (a(*from), a(*to), *amt).into_val(e), Some(*from))),
                Step::TransferFrom { spender, from, to, amt } => ("transfer_from", call("transfer_from", (a(*spender), a(*from), a(*to), *amt).into_val(e), Some(*spender))),
                Step::Approve { owner, spender, amt } => ("approve", call("approve", (a(*owner), a(*spender), *amt, e.ledger().max_live_until_ledger()).into_val(e), Some(*owner))),
                Step::Burn { from, amt } => ("burn", call("burn", (a(*from), *amt).into_val(e), Some(*from))),
                Step::BurnFrom { spender, from, amt } => ("burn_from", call("burn_from", (a(*spender), a(*from), *amt).into_val(e), Some(*spender))),
            };
            let snapshot = m.clone();
            let exp = m.apply(cfg, s);
            if let (Step::List { user, .. }, Some(n), true, true) = (s, list_events, got, exp) {
                // idempotent also for observers: a call that changes nothing announces nothing, a change is announced once
                let want = (snapshot.listed.contains(user) != m.listed.contains(user)) as usize;
                if n != want {
                    return Err(violation("list.idempotent_immediate", "events", i, format!("{s:?} emitted {n} list events, the list {} change", if want == 1 { "did" } else { "did not" })));
                }
                st.hit(if want == 1 { "probe.list_change_announced_once" } else { "probe.repeated_list_change_is_silent" });
            }
            if kind != "wait" {
                st.tx(kind, got);
            }
            if got != exp {
                let party = |x: usize| if snapshot.vet(cfg.kind, x) { "ok" } else { "not-vetted" };
                let disc = match s {
                    Step::Transfer { from, to, .. } | Step::TransferFrom { from, to, .. } => format!("{:?}.{kind}/from-{}/to-{}", cfg.kind, party(*from), party(*to)),
                    Step::Burn { from, .. } | Step::BurnFrom { from, .. } => format!("{:?}.{kind}/from-{}", cfg.kind, party(*from)),
                    Step::Approve { owner, .. } => format!("{:?}.{kind}/owner-{}", cfg.kind, party(*owner)),
                    _ => format!("{:?}.{kind}", cfg.kind),
                };
                let role_reason = match s {
                    Step::Pause { caller, signed } | Step::Unpause { caller, signed } => !*signed || *caller != 0,
                    Step::List { operator, signed, .. } => matches!(cfg.kind, Kind::AllowExample | Kind::BlockExample) && (!*signed || *operator != 1),
                    _ => false,
                };
                let check = if got && role_reason { "roles.owner_or_manager_only" } else if matches!(s, Step::Pause { .. } | Step::Unpause { .. }) { if got { "pause.alternation_and_owner_only" } else { "pause.alternation_live" } } else if matches!(s, Step::EmergencyReset) && got { "pause.when_paused_only" } else if got { if snapshot.paused { "pause.gated_fail_while_paused" } else if matches!(s, Step::Mint { .. }) && cfg.kind == Kind::CappedExample { "cap.never_exceeded" } else { "gate" } } else { "live.open_gate_succeeds" };
                return Err(violation(check, &disc, i, format!("{s:?}: real {got} model {exp}; paused={} listed={:?} supply={} cap={}", snapshot.paused, snapshot.listed, snapshot.supply, cfg.cap)));
            }
            if !got && w.storage_digest(&[&id]) != before {
                return Err(violation("fail.no_trace", kind, i, format!("{s:?}")));
            }
            let qb = |f: &str, args: Vec<Val>| -> Option<bool> { e.try_invoke_contract::<bool, soroban_sdk::Error>(&id, &Symbol::new(e, f), args).ok().and_then(|r| r.ok()) };
            if matches!(cfg.kind, Kind::PausableExample | Kind::PausableCounter) && qb("paused", ().into_val(e)) != Some(m.paused) {
                return Err(violation("pause.state_eq", "paused", i, format!("paused() != model {} after {s:?}", m.paused)));
            }
            if cfg.kind == Kind::PausableCounter {
                if let (Step::Increment, true) = (s, got) {
                    // works again unchanged after unpausing: the counter continues from the model's value
                    if returned != Some(m.counter) {
                        return Err(violation("pause.reopens_unchanged", "increment", i, format!("increment returned {returned:?}, model {}", m.counter)));
                    }
                }
                st.state(&(cfg.kind as u8, m.paused, m.counter.min(3)));
                continue;
            }
            // list changes take effect immediately and idempotently: the getter mirrors the model for every user
            for x in 0..cfg.actors {
                let (f, want) = match cfg.kind {
                    Kind::AllowExample | Kind::AllowWrapper => ("allowed", m.listed.contains(&x)),
                    Kind::BlockExample | Kind::BlockWrapper => ("blocked", m.listed.contains(&x)),
                    _ => break,
                };
                if qb(f, (a(x),).into_val(e)) != Some(want) {
                    return Err(violation("list.idempotent_immediate", f, i, format!("{f}(actor {x}) != model {want} after {s:?}")));
                }
            }
            for o in 0..cfg.actors {
                for sp in 0..cfg.actors {
                    let al = qi("allowance", (a(o), a(sp)).into_val(e));
                    if al != *m.allow.get(&(o, sp)).unwrap_or(&0) {
                        return Err(violation("state.model_eq", "allowance", i, format!("allowance({o},{sp}) = {al}, model {:?} after {s:?}", m.allow.get(&(o, sp)))));
                    }
                }
            }
            for x in 0..cfg.actors {
                if qi("balance", (a(x),).into_val(e)) != m.b(x) {
                    return Err(violation("state.model_eq", "balance", i, format!("actor {x} after {s:?}")));
                }
            }
            let ts = qi("total_supply", ().into_val(e));
            if ts != m.supply || (cfg.kind == Kind::CappedExample && ts > cfg.cap) {
                return Err(violation("cap.never_exceeded", "supply", i, format!("total_supply {ts} model {} cap {}", m.supply, cfg.cap)));
            }
            st.state(&(cfg.kind as u8, m.paused, m.listed.clone()));
        }
        Ok(())
    }
}
