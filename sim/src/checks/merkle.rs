//! C17: Merkle proofs verify only true membership and each leaf is claimed once
//! (examples/fungible-merkle-airdrop compiled from source over a real Base token).

use crate::core::*;
use crate::world::Base as W;
use serde::{Deserialize, Serialize};
#[allow(unused_imports)]
use soroban_sdk::{contract, contractimpl, contracttype, xdr::ToXdr, Address, Bytes, BytesN, Env, IntoVal, MuxedAddress, String as SString, Vec};
use stellar_tokens::fungible::{Base, FungibleToken};

mod ex {
    #[path = "/repo/examples/fungible-merkle-airdrop/src/contract.rs"]
    pub mod c;
}
use ex::c::{AirdropContract, AirdropContractClient};

#[contract]
pub struct Tok;
#[contractimpl]
impl Tok {
    pub fn mint(e: &Env, to: Address, amount: i128) {
        Base::mint(e, &to, amount);
    }
}
#[contractimpl(contracttrait)]
impl FungibleToken for Tok {
    type ContractType = Base;
}

// same field names and types as the example's private `Receiver` ⇒ same XDR
#[contracttype]
struct Receiver {
    pub index: u32,
    pub address: Address,
    pub amount: i128,
}

#[derive(Clone, Copy, Debug, Serialize, Deserialize, PartialEq)]
pub enum Corrupt {
    None,
    Amount,
    Receiver,
    Index(usize),
    ProofFlip(usize),
    ProofTruncate,
    ProofExtend,
    ProofOfOther(usize),
    ProofReverse,
}
#[derive(Clone, Debug, Serialize, Deserialize)]
pub enum Step {
    Claim { k: usize, corrupt: Corrupt },
    /// the clock: "claimed forever" must survive any amount of time (storage lifetimes)
    Advance { n: u32 },
}
#[derive(Clone, Debug, Serialize, Deserialize)]
pub struct Cfg {
    pub leaves: std::vec::Vec<(usize, u32)>, // (receiver actor, amount)
    pub funding_pct: u32,
}

pub(crate) fn h(e: &Env, a: &[u8; 32], b: &[u8; 32]) -> [u8; 32] {
    let (x, y) = if a > b { (b, a) } else { (a, b) };
    let mut v = Bytes::from_array(e, x);
    v.append(&Bytes::from_array(e, y));
    e.crypto().sha256(&v).to_array()
}
/// reference tree: adjacent pairs, an odd node is promoted; returns (root, proofs)
pub(crate) fn build(e: &Env, leaves: &[[u8; 32]]) -> ([u8; 32], std::vec::Vec<std::vec::Vec<[u8; 32]>>) {
    let n = leaves.len();
    let mut proofs = vec![vec![]; n];
    let mut level: std::vec::Vec<([u8; 32], std::vec::Vec<usize>)> = leaves.iter().enumerate().map(|(i, l)| (*l, vec![i])).collect();
    while level.len() > 1 {
        let mut next = vec![];
        let mut i = 0;
        while i < level.len() {
            if i + 1 < level.len() {
                let (l, r) = (&level[i], &level[i + 1]);
                for m in &l.1 {
                    proofs[*m].push(r.0);
                }
                for m in &r.1 {
                    proofs[*m].push(l.0);
                }
                let mut mem = l.1.clone();
                mem.extend(r.1.iter());
                next.push((h(e, &l.0, &r.0), mem));
                i += 2;
            } else {
                next.push(level[i].clone());
                i += 1;
            }
        }
        level = next;
    }
    (level[0].0, proofs)
}

pub struct Merkle;

impl Check for Merkle {
    type Cfg = Cfg;
    type Step = Step;
    fn id(&self) -> &'static str {
        "merkle"
    }
    fn runs(&self, tier: Tier) -> u64 {
        if tier == Tier::Quick {
            4000
        } else {
            50000
        }
    }
    fn components(&self) -> serde_json::Value {
        serde_json::json!({"real": ["examples/fungible-merkle-airdrop (from source)", "merkle_distributor::*", "crypto::{merkle::Verifier, hashable, sha256}", "fungible Base token"], "stub": ["reference tree builder in the harness (hash primitive = host sha256)"]})
    }
    fn clock_step(&self, n: u32) -> Option<Step> {
        Some(Step::Advance { n })
    }
    fn probes(&self, _prop: &str) -> std::vec::Vec<&'static str> {
        vec!["probe.claimed_flag_queried_after_long_time", "fault.corrupted_claim"]
    }
    fn dup_ok(&self, _s: &Step) -> bool {
        true
    }
    fn reorder_ok(&self) -> bool {
        true
    }
    fn generate(&self, rng: &mut Rng, tier: Tier) -> (Cfg, std::vec::Vec<Step>) {
        let n = match rng.below(6) { 0 => 1, 1 => 2, 2 => 3, _ => 1 + rng.below(if tier == Tier::Quick { 24 } else { 200 }) as usize };
        let cfg = Cfg { leaves: (0..n).map(|_| (rng.below(4) as usize, 1 + rng.below(1000) as u32)).collect(), funding_pct: if rng.chance(20) { 40 + rng.below(50) as u32 } else { 100 } };
        let nsteps = if tier == Tier::Quick { 15 + rng.below(40) } else { 15 + rng.below(120) } as usize;
        let mut steps = vec![];
        for _ in 0..nsteps {
            if rng.chance(10) {
                steps.push(Step::Advance { n: match rng.below(4) { 0 => 1 + rng.below(20) as u32, 1 => 4_000 + rng.below(30_000) as u32, 2 => 100_000 + rng.below(1_000_000) as u32, _ => 2_000_000 + rng.below(5_000_000) as u32 } });
                continue;
            }
            let k = rng.below(n as u64) as usize;
            let corrupt = if rng.chance(45) {
                Corrupt::None
            } else {
                match rng.below(8) {
                    0 => Corrupt::Amount,
                    1 => Corrupt::Receiver,
                    2 => Corrupt::Index(rng.below(n as u64 + 2) as usize),
                    3 => Corrupt::ProofFlip(rng.below(8) as usize),
                    4 => Corrupt::ProofTruncate,
                    5 => Corrupt::ProofExtend,
                    6 => Corrupt::ProofOfOther(rng.below(n as u64) as usize),
                    _ => Corrupt::ProofReverse,
                }
            };
            steps.push(Step::Claim { k, corrupt });
        }
        (cfg, steps)
    }
    fn execute(&self, cfg: &Cfg, steps: &[Step], st: &mut Stats) -> Result<(), Violation> {
        let w = W::new(5, 100, 16);
        let e = &w.e;
        let a = |i: usize| w.actors[i].clone();
        let tok = e.register(Tok, ());
        let tc = TokClient::new(e, &tok);
        let n = cfg.leaves.len();
        let leaf_hashes: std::vec::Vec<[u8; 32]> = cfg.leaves.iter().enumerate().map(|(i, (r, amt))| e.crypto().sha256(&Receiver { index: i as u32, address: a(*r), amount: *amt as i128 }.to_xdr(e)).to_array()).collect();
        let (root, proofs) = build(e, &leaf_hashes);
        let total: i128 = cfg.leaves.iter().map(|l| l.1 as i128).sum();
        let funding = total * cfg.funding_pct as i128 / 100;
        tc.mint(&a(4), &funding);
        e.mock_all_auths_allowing_non_root_auth();
        let id = e.register(AirdropContract, (BytesN::from_array(e, &root), tok.clone(), funding, a(4)));
        w.set_auth(&[]);
        let c = AirdropContractClient::new(e, &id);
        let mut claimed = vec![false; n];
        let mut bal = vec![0i128; 5];
        let mut pool = funding;
        let mut since_first_claim: u64 = 0;
        for (i, s) in steps.iter().enumerate() {
            let (k, corrupt) = match s {
                Step::Claim { k, corrupt } => (k, corrupt),
                Step::Advance { n: adv } => {
                    w.advance(*adv);
                    st.ledgers += *adv as u64;
                    st.hit("clock.advance");
                    if claimed.iter().any(|x| *x) {
                        since_first_claim += *adv as u64;
                        if since_first_claim > 600_000 {
                            st.hit("probe.claimed_flag_queried_after_long_time");
                        }
                    }
                    // nothing may change by the passage of time
                    for x in 0..n as u32 + 2 {
                        let want = (x as usize) < n && claimed[x as usize];
                        if c.is_claimed(&x) != want {
                            return Err(violation("claim.once_forever", "is_claimed_after_time", i, format!("is_claimed({x}) = {}, model {want} after advancing {adv} ledgers", !want)));
                        }
                    }
                    continue;
                }
            };
            let (r, amt) = cfg.leaves[*k];
            let mut index = *k as u32;
            let mut receiver = r;
            let mut amount = amt as i128;
            let mut proof: std::vec::Vec<[u8; 32]> = proofs[*k].clone();
            let mut effective = *corrupt;
            match corrupt {
                Corrupt::None => {}
                Corrupt::Amount => amount += 1,
                Corrupt::Receiver => receiver = (r + 1) % 4,
                Corrupt::Index(j) => {
                    if *j == *k { effective = Corrupt::None } else { index = *j as u32 }
                }
                Corrupt::ProofFlip(p) => {
                    if proof.is_empty() { effective = Corrupt::None } else { let l = proof.len(); proof[*p % l][7] ^= 0x10 }
                }
                Corrupt::ProofTruncate => {
                    if proof.is_empty() { effective = Corrupt::None } else { proof.pop(); }
                }
                Corrupt::ProofExtend => proof.push([0x5A; 32]),
                Corrupt::ProofOfOther(j) => {
                    if *j == *k || proofs[*j] == proofs[*k] { effective = Corrupt::None } else { proof = proofs[*j].clone() }
                }
                Corrupt::ProofReverse => {
                    let mut rv = proof.clone();
                    rv.reverse();
                    if rv == proof { effective = Corrupt::None } else { proof = rv }
                }
            }
            if effective != Corrupt::None {
                st.hit("fault.corrupted_claim");
            }
            let pv: Vec<BytesN<32>> = Vec::from_iter(e, proof.iter().map(|p| BytesN::from_array(e, p)));
            let before = w.storage_digest(&[&id, &tok]);
            let was_claimed: std::vec::Vec<bool> = (0..n as u32 + 2).map(|x| c.is_claimed(&x)).collect();
            let got = c.try_claim(&index, &a(receiver), &amount, &pv).is_ok();
            let exp = effective == Corrupt::None && !claimed[*k] && pool >= amount;
            st.tx(if effective == Corrupt::None { "claim.honest" } else { "claim.corrupted" }, got);
            if got != exp {
                let check = if got { if effective != Corrupt::None { "verify.rejects_corrupted" } else { "claim.once_forever" } } else { "verify.accepts_honest" };
                return Err(violation(check, "claim", i, format!("{s:?}: real {got}, model {exp}; claimed[{k}]={} pool={pool} leaves={n} proof_len={}", claimed[*k], proof.len())));
            }
            if got {
                claimed[*k] = true;
                bal[r] += amt as i128;
                pool -= amt as i128;
            } else {
                if w.storage_digest(&[&id, &tok]) != before {
                    return Err(violation("fail.no_trace", "claim", i, format!("state changed by failed {s:?}")));
                }
                if pool < amount && effective == Corrupt::None && !claimed[*k] {
                    st.hit("fault.underfunded_transfer_trap");
                }
            }
            for x in 0..n as u32 + 2 {
                let want = (x as usize) < n && claimed[x as usize];
                if c.is_claimed(&x) != want {
                    return Err(violation("claim.once_forever", "is_claimed", i, format!("is_claimed({x}) = {}, model {want} (before this step: {})", !want, was_claimed[x as usize])));
                }
            }
            for x in 0..4 {
                if tc.balance(&a(x)) != bal[x] {
                    return Err(violation("claim.pays_exactly_once", "balance", i, format!("receiver {x}: balance {}, model {}", tc.balance(&a(x)), bal[x])));
                }
            }
            if tc.balance(&id) != pool {
                return Err(violation("claim.pays_exactly_once", "pool", i, format!("pool {} model {pool}", tc.balance(&id))));
            }
            st.state(&(n.min(40), claimed.iter().filter(|x| **x).count().min(40), std::mem::discriminant(&effective), got, proof.len().min(9), pool >= amount));
        }
        Ok(())
    }
}
