//! C17 (positional form; Keccak-256 or SHA-256 per run): verify_with_index_and_set_claimed behind a wrapper, plus the
//! pure sorted-pair verifier of the same hasher over the same leaves.

use crate::core::*;
use crate::world::Base as W;
use serde::{Deserialize, Serialize};
use soroban_sdk::{contract, contractimpl, contracttype, xdr::ToXdr, Bytes, BytesN, Env, Vec};
use stellar_contract_utils::{crypto::{keccak::Keccak256, merkle::Verifier, sha256::Sha256}, merkle_distributor::{IndexableLeaf, MerkleDistributor}};

type D = MerkleDistributor<Keccak256>;
type DS = MerkleDistributor<Sha256>;

#[contracttype]
#[derive(Clone)]
pub struct Leaf { pub index: u32, pub amount: i128 }
impl IndexableLeaf for Leaf { fn index(&self) -> u32 { self.index } }

#[contract]
pub struct Dist;
#[contractimpl]
impl Dist {
    pub fn set_root(e: &Env, root: BytesN<32>) { D::set_root(e, root) }
    pub fn claim(e: &Env, leaf: Leaf, proof: Vec<BytesN<32>>) { D::verify_with_index_and_set_claimed(e, leaf, proof) }
    pub fn is_claimed(e: &Env, index: u32) -> bool { D::is_claimed(e, index) }
    pub fn verify(e: &Env, proof: Vec<BytesN<32>>, root: BytesN<32>, leaf: BytesN<32>, index: u32) -> bool { Verifier::<Keccak256>::verify_with_index(e, proof, root, leaf, index) }
    pub fn verify_sorted(e: &Env, proof: Vec<BytesN<32>>, root: BytesN<32>, leaf: BytesN<32>) -> bool { Verifier::<Keccak256>::verify(e, proof, root, leaf) }
}
/// the same wrapper over SHA-256
#[contract]
pub struct DistS;
#[contractimpl]
impl DistS {
    pub fn set_root(e: &Env, root: BytesN<32>) { DS::set_root(e, root) }
    pub fn claim(e: &Env, leaf: Leaf, proof: Vec<BytesN<32>>) { DS::verify_with_index_and_set_claimed(e, leaf, proof) }
    pub fn is_claimed(e: &Env, index: u32) -> bool { DS::is_claimed(e, index) }
    pub fn verify(e: &Env, proof: Vec<BytesN<32>>, root: BytesN<32>, leaf: BytesN<32>, index: u32) -> bool { Verifier::<Sha256>::verify_with_index(e, proof, root, leaf, index) }
    pub fn verify_sorted(e: &Env, proof: Vec<BytesN<32>>, root: BytesN<32>, leaf: BytesN<32>) -> bool { Verifier::<Sha256>::verify(e, proof, root, leaf) }
}
/// one client type for both wrappers
enum Cl<'a> { K(DistClient<'a>), S(DistSClient<'a>) }
impl<'a> Cl<'a> {
    fn set_root(&self, r: &BytesN<32>) { match self { Cl::K(c) => c.set_root(r), Cl::S(c) => c.set_root(r) } }
    fn is_claimed(&self, i: &u32) -> bool { match self { Cl::K(c) => c.is_claimed(i), Cl::S(c) => c.is_claimed(i) } }
    fn try_claim(&self, l: &Leaf, p: &Vec<BytesN<32>>) -> bool { match self { Cl::K(c) => c.try_claim(l, p).is_ok(), Cl::S(c) => c.try_claim(l, p).is_ok() } }
    /// Some(answer), or None when the call failed
    fn try_verify(&self, p: &Vec<BytesN<32>>, r: &BytesN<32>, l: &BytesN<32>, i: &u32) -> Option<bool> {
        match self { Cl::K(c) => c.try_verify(p, r, l, i).ok().and_then(|x| x.ok()), Cl::S(c) => c.try_verify(p, r, l, i).ok().and_then(|x| x.ok()) }
    }
    fn try_verify_sorted(&self, p: &Vec<BytesN<32>>, r: &BytesN<32>, l: &BytesN<32>) -> Option<bool> {
        match self { Cl::K(c) => c.try_verify_sorted(p, r, l).ok().and_then(|x| x.ok()), Cl::S(c) => c.try_verify_sorted(p, r, l).ok().and_then(|x| x.ok()) }
    }
}

#[derive(Clone, Copy, Debug, Serialize, Deserialize, PartialEq)]
pub enum Corrupt { None, Amount, Index(u32), Flip(usize), Truncate, Extend, Other(usize), Reverse }
#[derive(Clone, Debug, Serialize, Deserialize)]
pub enum Step { Claim { tree: usize, k: usize, corrupt: Corrupt }, SetRoot { tree: usize }, Advance { n: u32 } }
#[derive(Clone, Debug, Serialize, Deserialize)]
pub struct Cfg {
    pub sizes: std::vec::Vec<usize>,
    /// SHA-256 instead of Keccak-256
    #[serde(default)]
    pub sha: bool,
}

fn hh(e: &Env, sha: bool, v: &Bytes) -> [u8; 32] { if sha { e.crypto().sha256(v).to_array() } else { e.crypto().keccak256(v).to_array() } }
fn kh(e: &Env, sha: bool, a: &[u8; 32], b: &[u8; 32]) -> [u8; 32] { let mut v = Bytes::from_array(e, a); v.append(&Bytes::from_array(e, b)); hh(e, sha, &v) }
/// reference sorted-pair tree (adjacent pairs, smaller hash first, an odd node is promoted); returns (root, proofs)
fn build_sorted(e: &Env, sha: bool, leaves: &[[u8; 32]]) -> ([u8; 32], std::vec::Vec<std::vec::Vec<[u8; 32]>>) {
    let mut proofs = vec![vec![]; leaves.len()];
    let mut level: std::vec::Vec<([u8; 32], std::vec::Vec<usize>)> = leaves.iter().enumerate().map(|(i, l)| (*l, vec![i])).collect();
    while level.len() > 1 {
        let mut next = vec![];
        for pair in level.chunks(2) {
            if pair.len() == 2 {
                for m in &pair[0].1 { proofs[*m].push(pair[1].0); }
                for m in &pair[1].1 { proofs[*m].push(pair[0].0); }
                let (x, y) = if pair[0].0 > pair[1].0 { (&pair[1].0, &pair[0].0) } else { (&pair[0].0, &pair[1].0) };
                let mut mem = pair[0].1.clone();
                mem.extend(pair[1].1.iter());
                next.push((kh(e, sha, x, y), mem));
            } else {
                next.push(pair[0].clone());
            }
        }
        level = next;
    }
    (level[0].0, proofs)
}
fn build(e: &Env, sha: bool, leaves: &[[u8; 32]]) -> ([u8; 32], std::vec::Vec<std::vec::Vec<[u8; 32]>>) {
    let mut width = 1; while width < leaves.len() { width *= 2; }
    let mut level: std::vec::Vec<[u8; 32]> = (0..width).map(|i| if i < leaves.len() { leaves[i] } else { [0u8; 32] }).collect();
    let mut proofs = vec![vec![]; leaves.len()];
    let mut pos: std::vec::Vec<usize> = (0..leaves.len()).collect();
    while level.len() > 1 {
        for (m, p) in pos.iter_mut().enumerate() { proofs[m].push(level[*p ^ 1]); *p /= 2; }
        level = level.chunks(2).map(|c| kh(e, sha, &c[0], &c[1])).collect();
    }
    (level[0], proofs)
}

pub struct MerkleIndexed;
impl Check for MerkleIndexed {
    type Cfg = Cfg;
    type Step = Step;
    fn id(&self) -> &'static str { "merkle_indexed" }
    fn runs(&self, tier: Tier) -> u64 {
        if tier == Tier::Quick {
            4000
        } else {
            50000
        }
    }
    fn components(&self) -> serde_json::Value { serde_json::json!({"real": ["MerkleDistributor<Keccak256 | Sha256>::verify_with_index_and_set_claimed", "Verifier::verify_with_index", "Verifier::verify (sorted-pair)", "crypto::{keccak, sha256}"], "stub": ["reference positional tree in the harness"]}) }
    fn clock_step(&self, n: u32) -> Option<Step> {
        Some(Step::Advance { n })
    }
    fn generate(&self, rng: &mut Rng, tier: Tier) -> (Cfg, std::vec::Vec<Step>) {
        let mk = |rng: &mut Rng| match rng.below(5) { 0 => 1, 1 => 2, 2 => 3, _ => 1 + rng.below(if tier == Tier::Quick { 20 } else { 100 }) as usize };
        let cfg = Cfg { sizes: vec![mk(rng), mk(rng)], sha: rng.chance(50) };
        let mut steps = vec![Step::SetRoot { tree: 0 }];
        let mut cur = 0usize;
        for _ in 0..(15 + rng.below(50)) {
            if rng.chance(4) { cur = 1 - cur; steps.push(Step::SetRoot { tree: cur }); continue; }
            if rng.chance(8) { steps.push(Step::Advance { n: match rng.below(4) { 0 => 1 + rng.below(20) as u32, 1 => 4_000 + rng.below(30_000) as u32, 2 => 100_000 + rng.below(1_000_000) as u32, _ => 2_000_000 + rng.below(5_000_000) as u32 } }); continue; }
            let tree = if rng.chance(88) { cur } else { 1 - cur };
            let n = cfg.sizes[tree];
            let k = rng.below(n as u64) as usize;
            let corrupt = if rng.chance(50) { Corrupt::None } else { match rng.below(7) { 0 => Corrupt::Amount, 1 => Corrupt::Index(rng.below(n as u64 * 2 + 2) as u32), 2 => Corrupt::Flip(rng.below(8) as usize), 3 => Corrupt::Truncate, 4 => Corrupt::Extend, 5 => Corrupt::Other(rng.below(n as u64) as usize), _ => Corrupt::Reverse } };
            steps.push(Step::Claim { tree, k, corrupt });
        }
        (cfg, steps)
    }
    fn probes(&self, _prop: &str) -> std::vec::Vec<&'static str> {
        vec!["probe.claim_against_other_root", "probe.root_changed", "probe.claimed_flag_queried_after_long_time", "probe.sorted_pair_honest", "probe.sorted_pair_corrupted"]
    }
    fn dup_ok(&self, _s: &Step) -> bool {
        true
    }
    fn reorder_ok(&self) -> bool {
        true
    }
    fn execute(&self, cfg: &Cfg, steps: &[Step], st: &mut Stats) -> Result<(), Violation> {
        let w = W::new(1, 100, 16);
        let e = &w.e;
        let sha = cfg.sha;
        let id = if sha { e.register(DistS, ()) } else { e.register(Dist, ()) };
        let c = if sha { Cl::S(DistSClient::new(e, &id)) } else { Cl::K(DistClient::new(e, &id)) };
        let trees: std::vec::Vec<_> = cfg.sizes.iter().enumerate().map(|(t, n)| {
            let leaves: std::vec::Vec<Leaf> = (0..*n).map(|i| Leaf { index: i as u32, amount: (t * 1000 + i) as i128 + 1 }).collect();
            let hs: std::vec::Vec<[u8; 32]> = leaves.iter().map(|l| hh(e, sha, &l.clone().to_xdr(e))).collect();
            let (root, proofs) = build(e, sha, &hs);
            let sorted = build_sorted(e, sha, &hs);
            (leaves, hs, root, proofs, sorted)
        }).collect();
        let mut cur: Option<usize> = None;
        let mut claimed: std::collections::BTreeSet<u32> = Default::default();
        for (i, s) in steps.iter().enumerate() {
            match s {
                Step::Advance { n } => { w.advance(*n); st.ledgers += *n as u64; st.hit("clock.advance"); if !claimed.is_empty() && *n > 600_000 { st.hit("probe.claimed_flag_queried_after_long_time"); } }
                Step::SetRoot { tree } => { c.set_root(&BytesN::from_array(e, &trees[*tree].2)); cur = Some(*tree); st.hit("probe.root_changed"); }
                Step::Claim { tree, k, corrupt } => {
                    let (leaves, hs, root, proofs, (sroot, sproofs)) = &trees[*tree];
                    let mut leaf = leaves[*k].clone();
                    let mut proof = proofs[*k].clone();
                    let mut eff = *corrupt;
                    match corrupt {
                        Corrupt::None => {}
                        Corrupt::Amount => leaf.amount += 1,
                        Corrupt::Index(j) => if *j == leaf.index { eff = Corrupt::None } else { leaf.index = *j },
                        Corrupt::Flip(p) => if proof.is_empty() { eff = Corrupt::None } else { let l = proof.len(); proof[*p % l][9] ^= 1 },
                        Corrupt::Truncate => if proof.is_empty() { eff = Corrupt::None } else { proof.pop(); },
                        Corrupt::Extend => proof.push([7u8; 32]),
                        Corrupt::Other(j) => if *j == *k { eff = Corrupt::None } else { proof = proofs[*j].clone() },
                        Corrupt::Reverse => { let mut r = proof.clone(); r.reverse(); if r == proof { eff = Corrupt::None } else { proof = r } }
                    }
                    let pv: Vec<BytesN<32>> = Vec::from_iter(e, proof.iter().map(|p| BytesN::from_array(e, p)));
                    // the pure verifier first (honest leaf hash of the possibly corrupted leaf)
                    let lh = hh(e, sha, &leaf.clone().to_xdr(e));
                    let vr = c.try_verify(&pv, &BytesN::from_array(e, root), &BytesN::from_array(e, &lh), &leaf.index);
                    let genuine = eff == Corrupt::None;
                    let _ = hs;
                    match (&vr, genuine) {
                        (Some(true), true) => {}
                        (Some(true), false) => return Err(violation("verify.rejects_corrupted", "verify_with_index", i, format!("{s:?} verified"))),
                        (_, true) => return Err(violation("verify.accepts_honest", "verify_with_index", i, format!("{s:?} rejected: {vr:?}"))),
                        _ => {}
                    }
                    // the same leaf hash and proof under a WRONG position must never verify: neighbours, positions sharing
                    // the low bits of the right one (index + k * 2^depth), and a far one
                    if genuine {
                        let depth = proof.len() as u32;
                        let span = 1u32.checked_shl(depth).unwrap_or(0);
                        for wrong in [leaf.index ^ 1, leaf.index.wrapping_add(1), leaf.index.wrapping_add(span), leaf.index.wrapping_add(span.wrapping_mul(2)), leaf.index.wrapping_add(7), u32::MAX - leaf.index] {
                            if wrong == leaf.index {
                                continue;
                            }
                            st.hit("fault.wrong_position");
                            if let Some(true) = c.try_verify(&pv, &BytesN::from_array(e, root), &BytesN::from_array(e, &lh), &wrong) {
                                return Err(violation("verify.rejects_corrupted", "wrong_index", i, format!("leaf {} of a {}-leaf tree (proof length {depth}) verified at position {wrong}", leaf.index, leaves.len())));
                            }
                        }
                    }
                    // sorted-pair form of the same hasher over the same leaves: the honest proof is accepted, the same kind of
                    // corruption applied to it is rejected
                    {
                        let mut sp = sproofs[*k].clone();
                        let mut seff = *corrupt;
                        match corrupt {
                            Corrupt::None | Corrupt::Amount => {}
                            // the sorted-pair form has no position: a different index is a different leaf (its hash changes)
                            Corrupt::Index(j) => if *j == leaves[*k].index { seff = Corrupt::None },
                            Corrupt::Flip(p) => if sp.is_empty() { seff = Corrupt::None } else { let l = sp.len(); sp[*p % l][9] ^= 1 },
                            Corrupt::Truncate => if sp.is_empty() { seff = Corrupt::None } else { sp.pop(); },
                            Corrupt::Extend => sp.push([7u8; 32]),
                            Corrupt::Other(j) => if sproofs[*j] == sp { seff = Corrupt::None } else { sp = sproofs[*j].clone() },
                            Corrupt::Reverse => { let mut r = sp.clone(); r.reverse(); if r == sp { seff = Corrupt::None } else { sp = r } }
                        }
                        let spv: Vec<BytesN<32>> = Vec::from_iter(e, sp.iter().map(|p| BytesN::from_array(e, p)));
                        let r = c.try_verify_sorted(&spv, &BytesN::from_array(e, sroot), &BytesN::from_array(e, &lh));
                        st.hit(if seff == Corrupt::None { "probe.sorted_pair_honest" } else { "probe.sorted_pair_corrupted" });
                        match (r, seff == Corrupt::None) {
                            (Some(true), true) => {}
                            (Some(true), false) => return Err(violation("verify.rejects_corrupted", "verify_sorted", i, format!("{s:?}: corrupted sorted-pair proof verified (sha={sha})"))),
                            (other, true) => return Err(violation("verify.accepts_honest", "verify_sorted", i, format!("{s:?}: honest sorted-pair proof rejected: {other:?} (sha={sha})"))),
                            _ => {}
                        }
                    }
                    // a proof vector is only element-checked when it is iterated: the honest proof padded with elements that are not
                    // 32-byte hashes (a 31-byte string, a number) is an EXTENDED proof and must not verify, in either form
                    if genuine && i % 4 == 0 {
                        use soroban_sdk::{IntoVal, Symbol, Val};
                        for (form, honest, rt) in [("verify_sorted", &sproofs[*k], sroot), ("verify", &proofs[*k], root)] {
                            for junk in [Bytes::from_array(e, &[9u8; 31]).to_val(), 7u32.into_val(e)] {
                                let mut raw: Vec<Val> = Vec::new(e);
                                for p in honest.iter() { raw.push_back(BytesN::from_array(e, p).to_val()); }
                                raw.push_back(junk);
                                let mut args: Vec<Val> = Vec::new(e);
                                args.push_back(raw.to_val());
                                args.push_back(BytesN::from_array(e, rt).to_val());
                                args.push_back(BytesN::from_array(e, &lh).to_val());
                                if form == "verify" { args.push_back(leaf.index.into_val(e)); }
                                st.hit("fault.proof_padded_with_malformed_element");
                                if let Ok(Ok(true)) = e.try_invoke_contract::<bool, soroban_sdk::Error>(&id, &Symbol::new(e, form), args) {
                                    return Err(violation("verify.rejects_corrupted", "malformed_padding", i, format!("{form}: the honest proof of leaf {} padded with a malformed element verified (sha={sha})", leaf.index)));
                                }
                            }
                        }
                    }
                    let before = w.storage_digest(&[&id]);
                    let got = c.try_claim(&leaf, &pv);
                    let exp = genuine && cur == Some(*tree) && !claimed.contains(&leaf.index);
                    st.tx(if genuine { "claim.genuine" } else { "claim.corrupted" }, got);
                    if got != exp {
                        return Err(violation(if got { "claim.iff_genuine_and_unclaimed" } else { "verify.accepts_honest" }, "claim", i, format!("{s:?}: real {got} model {exp}; current root = tree {cur:?}; claimed {claimed:?}")));
                    }
                    if got { claimed.insert(leaf.index); } else if w.storage_digest(&[&id]) != before { return Err(violation("fail.no_trace", "claim", i, format!("{s:?}"))); }
                    if cur != Some(*tree) && genuine { st.hit("probe.claim_against_other_root"); }
                }
            }
            for x in 0..*cfg.sizes.iter().max().unwrap() as u32 + 2 {
                if c.is_claimed(&x) != claimed.contains(&x) { return Err(violation("claim.once_forever", "is_claimed", i, format!("index {x}"))); }
            }
            st.state(&(claimed.len().min(30), cur, sha));
        }
        Ok(())
    }
}
