//! C17 (positional form, Keccak-256): verify_with_index_and_set_claimed behind a wrapper.

use crate::core::*;
use crate::world::Base as W;
use serde::{Deserialize, Serialize};
use soroban_sdk::{contract, contractimpl, contracttype, xdr::ToXdr, Bytes, BytesN, Env, Vec};
use stellar_contract_utils::{crypto::{keccak::Keccak256, merkle::Verifier}, merkle_distributor::{IndexableLeaf, MerkleDistributor}};

type D = MerkleDistributor<Keccak256>;

#[contracttype]
#[derive(Clone)]
pub struct Leaf { pub index: u32, pub amount: i128 }
impl IndexableLeaf for Leaf { fn index(&self) -> u32 { self.index } }

#[contract]
pub struct Dist;
#[contractimpl]
impl Dist {
    pub fn set_root(e: &Env, root: BytesN<32>) { D::set_root(e, root) }
    pub fn claim(e: &Env, leaf: Leaf, proof: Vec<BytesN<32>>) { D::verify_with_index_and_set_claimed(e, leaf, proof) }
    pub fn is_claimed(e: &Env, index: u32) -> bool { D::is_claimed(e, index) }
    pub fn verify(e: &Env, proof: Vec<BytesN<32>>, root: BytesN<32>, leaf: BytesN<32>, index: u32) -> bool { Verifier::<Keccak256>::verify_with_index(e, proof, root, leaf, index) }
}

#[derive(Clone, Copy, Debug, Serialize, Deserialize, PartialEq)]
pub enum Corrupt { None, Amount, Index(u32), Flip(usize), Truncate, Extend, Other(usize), Reverse }
#[derive(Clone, Debug, Serialize, Deserialize)]
pub enum Step { Claim { tree: usize, k: usize, corrupt: Corrupt }, SetRoot { tree: usize }, Advance { n: u32 } }
#[derive(Clone, Debug, Serialize, Deserialize)]
pub struct Cfg { pub sizes: std::vec::Vec<usize> }

fn kh(e: &Env, a: &[u8; 32], b: &[u8; 32]) -> [u8; 32] { let mut v = Bytes::from_array(e, a); v.append(&Bytes::from_array(e, b)); e.crypto().keccak256(&v).to_array() }
fn build(e: &Env, leaves: &[[u8; 32]]) -> ([u8; 32], std::vec::Vec<std::vec::Vec<[u8; 32]>>) {
    let mut width = 1; while width < leaves.len() { width *= 2; }
    let mut level: std::vec::Vec<[u8; 32]> = (0..width).map(|i| if i < leaves.len() { leaves[i] } else { [0u8; 32] }).collect();
    let mut proofs = vec![vec![]; leaves.len()];
    let mut pos: std::vec::Vec<usize> = (0..leaves.len()).collect();
    while level.len() > 1 {
        for (m, p) in pos.iter_mut().enumerate() { proofs[m].push(level[*p ^ 1]); *p /= 2; }
        level = level.chunks(2).map(|c| kh(e, &c[0], &c[1])).collect();
    }
    (level[0], proofs)
}

pub struct MerkleIndexed;
impl Check for MerkleIndexed {
    type Cfg = Cfg;
    type Step = Step;
    fn id(&self) -> &'static str { "merkle_indexed" }
    fn runs(&self, tier: Tier) -> u64 {
        if tier == Tier::Quick {
            4000
        } else {
            100000
        }
    }
    fn components(&self) -> serde_json::Value { serde_json::json!({"real": ["MerkleDistributor<Keccak256>::verify_with_index_and_set_claimed", "Verifier::verify_with_index", "crypto::keccak"], "stub": ["reference positional tree in the harness"]}) }
    fn clock_step(&self, n: u32) -> Option<Step> {
        Some(Step::Advance { n })
    }
    fn generate(&self, rng: &mut Rng, tier: Tier) -> (Cfg, std::vec::Vec<Step>) {
        let mk = |rng: &mut Rng| match rng.below(5) { 0 => 1, 1 => 2, 2 => 3, _ => 1 + rng.below(if tier == Tier::Quick { 20 } else { 100 }) as usize };
        let cfg = Cfg { sizes: vec![mk(rng), mk(rng)] };
        let mut steps = vec![Step::SetRoot { tree: 0 }];
        let mut cur = 0usize;
        for _ in 0..(15 + rng.below(50)) {
            if rng.chance(4) { cur = 1 - cur; steps.push(Step::SetRoot { tree: cur }); continue; }
            if rng.chance(8) { steps.push(Step::Advance { n: match rng.below(4) { 0 => 1 + rng.below(20) as u32, 1 => 4_000 + rng.below(30_000) as u32, 2 => 100_000 + rng.below(1_000_000) as u32, _ => 2_000_000 + rng.below(5_000_000) as u32 } }); continue; }
            let tree = if rng.chance(88) { cur } else { 1 - cur };
            let n = cfg.sizes[tree];
            let k = rng.below(n as u64) as usize;
            let corrupt = if rng.chance(50) { Corrupt::None } else { match rng.below(7) { 0 => Corrupt::Amount, 1 => Corrupt::Index(rng.below(n as u64 * 2 + 2) as u32), 2 => Corrupt::Flip(rng.below(8) as usize), 3 => Corrupt::Truncate, 4 => Corrupt::Extend, 5 => Corrupt::Other(rng.below(n as u64) as usize), _ => Corrupt::Reverse } };
            steps.push(Step::Claim { tree, k, corrupt });
        }
        (cfg, steps)
    }
    fn probes(&self, _prop: &str) -> std::vec::Vec<&'static str> {
        vec!["probe.claim_against_other_root", "probe.root_changed", "probe.claimed_flag_queried_after_long_time"]
    }
    fn dup_ok(&self, _s: &Step) -> bool {
        true
    }
    fn reorder_ok(&self) -> bool {
        true
    }
    fn execute(&self, cfg: &Cfg, steps: &[Step], st: &mut Stats) -> Result<(), Violation> {
        let w = W::new(1, 100, 16);
        let e = &w.e;
        let id = e.register(Dist, ());
        let c = DistClient::new(e, &id);
        let trees: std::vec::Vec<_> = cfg.sizes.iter().enumerate().map(|(t, n)| {
            let leaves: std::vec::Vec<Leaf> = (0..*n).map(|i| Leaf { index: i as u32, amount: (t * 1000 + i) as i128 + 1 }).collect();
            let hs: std::vec::Vec<[u8; 32]> = leaves.iter().map(|l| e.crypto().keccak256(&l.clone().to_xdr(e)).to_array()).collect();
            let (root, proofs) = build(e, &hs);
            (leaves, hs, root, proofs)
        }).collect();
        let mut cur: Option<usize> = None;
        let mut claimed: std::collections::BTreeSet<u32> = Default::default();
        for (i, s) in steps.iter().enumerate() {
            match s {
                Step::Advance { n } => { w.advance(*n); st.ledgers += *n as u64; st.hit("clock.advance"); if !claimed.is_empty() && *n > 600_000 { st.hit("probe.claimed_flag_queried_after_long_time"); } }
                Step::SetRoot { tree } => { c.set_root(&BytesN::from_array(e, &trees[*tree].2)); cur = Some(*tree); st.hit("probe.root_changed"); }
                Step::Claim { tree, k, corrupt } => {
                    let (leaves, hs, root, proofs) = &trees[*tree];
                    let mut leaf = leaves[*k].clone();
                    let mut proof = proofs[*k].clone();
                    let mut eff = *corrupt;
                    match corrupt {
                        Corrupt::None => {}
                        Corrupt::Amount => leaf.amount += 1,
                        Corrupt::Index(j) => if *j == leaf.index { eff = Corrupt::None } else { leaf.index = *j },
                        Corrupt::Flip(p) => if proof.is_empty() { eff = Corrupt::None } else { let l = proof.len(); proof[*p % l][9] ^= 1 },
                        Corrupt::Truncate => if proof.is_empty() { eff = Corrupt::None } else { proof.pop(); },
                        Corrupt::Extend => proof.push([7u8; 32]),
                        Corrupt::Other(j) => if *j == *k { eff = Corrupt::None } else { proof = proofs[*j].clone() },
                        Corrupt::Reverse => { let mut r = proof.clone(); r.reverse(); if r == proof { eff = Corrupt::None } else { proof = r } }
                    }
                    let pv: Vec<BytesN<32>> = Vec::from_iter(e, proof.iter().map(|p| BytesN::from_array(e, p)));
                    // the pure verifier first (honest leaf hash of the possibly corrupted leaf)
                    let lh = e.crypto().keccak256(&leaf.clone().to_xdr(e)).to_array();
                    let vr = c.try_verify(&pv, &BytesN::from_array(e, root), &BytesN::from_array(e, &lh), &leaf.index);
                    let genuine = eff == Corrupt::None;
                    let _ = hs;
                    match (&vr, genuine) {
                        (Ok(Ok(true)), true) => {}
                        (Ok(Ok(true)), false) => return Err(violation("verify.rejects_corrupted", "verify_with_index", i, format!("{s:?} verified"))),
                        (_, true) => return Err(violation("verify.accepts_honest", "verify_with_index", i, format!("{s:?} rejected: {vr:?}"))),
                        _ => {}
                    }
                    // the same leaf hash and proof under a WRONG position must never verify: neighbours, positions sharing
                    // the low bits of the right one (index + k * 2^depth), and a far one
                    if genuine {
                        let depth = proof.len() as u32;
                        let span = 1u32.checked_shl(depth).unwrap_or(0);
                        for wrong in [leaf.index ^ 1, leaf.index.wrapping_add(1), leaf.index.wrapping_add(span), leaf.index.wrapping_add(span.wrapping_mul(2)), leaf.index.wrapping_add(7), u32::MAX - leaf.index] {
                            if wrong == leaf.index {
                                continue;
                            }
                            st.hit("fault.wrong_position");
                            if let Ok(Ok(true)) = c.try_verify(&pv, &BytesN::from_array(e, root), &BytesN::from_array(e, &lh), &wrong) {
                                return Err(violation("verify.rejects_corrupted", "wrong_index", i, format!("leaf {} of a {}-leaf tree (proof length {depth}) verified at position {wrong}", leaf.index, leaves.len())));
                            }
                        }
                    }
                    let before = w.storage_digest(&[&id]);
                    let got = c.try_claim(&leaf, &pv).is_ok();
                    let exp = genuine && cur == Some(*tree) && !claimed.contains(&leaf.index);
                    st.tx(if genuine { "claim.genuine" } else { "claim.corrupted" }, got);
                    if got != exp {
                        return Err(violation(if got { "claim.iff_genuine_and_unclaimed" } else { "verify.accepts_honest" }, "claim", i, format!("{s:?}: real {got} model {exp}; current root = tree {cur:?}; claimed {claimed:?}")));
                    }
                    if got { claimed.insert(leaf.index); } else if w.storage_digest(&[&id]) != before { return Err(violation("fail.no_trace", "claim", i, format!("{s:?}"))); }
                    if cur != Some(*tree) && genuine { st.hit("probe.claim_against_other_root"); }
                }
            }
            for x in 0..*cfg.sizes.iter().max().unwrap() as u32 + 2 {
                if c.is_claimed(&x) != claimed.contains(&x) { return Err(violation("claim.once_forever", "is_claimed", i, format!("index {x}"))); }
            }
            st.state(&(claimed.len().min(30), cur));
        }
        Ok(())
    }
}
