//! C09: a self-administered TimelockController cannot be driven around its own delay
//! (examples/timelock-controller compiled from source; real __check_auth through real entries).

use crate::core::*;
use crate::world::{Base as W, Inv};
use serde::{Deserialize, Serialize};
use soroban_sdk::{vec as svec, xdr, Address, BytesN, IntoVal, Symbol, TryFromVal, Val, Vec};

mod ex {
    #[path = "/repo/examples/timelock-controller/src/contract.rs"]
    pub mod c;
}
use ex::c::{OperationMeta, TimelockController, TimelockControllerClient};

#[derive(Clone, Copy, Debug, Serialize, Deserialize, PartialEq)]
pub enum Meta {
    Honest,
    Empty,
    Void,
    WrongSalt,
    WrongPred,
    NoExecutor,
    StrangerExecutor,
    Extra,
}
#[derive(Clone, Debug, Serialize, Deserialize)]
pub enum Step {
    Schedule { k: usize, delay_over_min: i64, proposer: usize, signed: bool },
    Cancel { k: usize, canceller: usize, signed: bool },
    /// the proposer schedules a look-alike of op k (same function, arguments, predecessor, salt) whose target is ANOTHER
    /// contract: it must never stand in for the operation on the controller itself
    ScheduleDecoy { k: usize, delay_over_min: i64 },
    SelfExec { k: usize, meta: Meta, executor_signs: bool },
    /// renounce_role(role, caller = holder): 0 proposer · 1 canceller · 2 executor; unsigned = somebody else submits it
    Renounce { role: u8, holder: usize, signed: bool },
    Advance { n: u32 },
}
#[derive(Clone, Debug, Serialize, Deserialize)]
pub struct Cfg {
    pub start_ledger: u32,
    pub min_delay: u32,
    pub with_executors: bool,
    pub delays: std::vec::Vec<u32>, // op k = update_delay(delays[k]) with salt k
    /// what op k does: 0 update_delay(delays[k]) · 1 grant_role(actor 3, canceller) · 2 revoke_role(actor 1, canceller) ·
    /// 3 transfer_admin_role(actor 3, start_ledger + 2 000 000) · 4 renounce_admin() · 5 set_role_admin(canceller, proposer)
    #[serde(default)]
    pub kinds: std::vec::Vec<u8>,
    /// op k names op preds[k] (an earlier op) as its predecessor
    #[serde(default)]
    pub preds: std::vec::Vec<Option<usize>>,
}
// actors: 0 stranger/attacker, 1 proposer(+canceller), 2 executor, 3 other
#[derive(Clone, Copy, Debug, PartialEq)]
enum S {
    Unset,
    Pending(u32),
    Done,
}
#[derive(Clone, Debug)]
struct Model {
    st: std::vec::Vec<S>,
    decoy: std::vec::Vec<S>,
    min: u32,
    now: u32,
    cancellers: std::collections::BTreeSet<usize>,
    proposers: std::collections::BTreeSet<usize>,
    executors: std::collections::BTreeSet<usize>,
    /// last ledger at which an executed transfer_admin_role offer is still stored
    pending_until: Option<u32>,
    admin_gone: bool,
    role_admin_set: bool,
}
#[derive(Debug, PartialEq)]
enum Exp {
    Ok,
    Fail,
    Unspecified,
}
fn offer_until(cfg: &Cfg) -> u32 {
    cfg.start_ledger + 2_000_000
}
fn pred_of(cfg: &Cfg, k: usize) -> Option<usize> {
    cfg.preds.get(k).copied().flatten().filter(|p| *p < k)
}
fn kind_of(cfg: &Cfg, k: usize) -> u8 {
    cfg.kinds.get(k).copied().unwrap_or(0)
}
impl Model {
    fn effect(&mut self, cfg: &Cfg, k: usize) {
        match kind_of(cfg, k) {
            0 => self.min = cfg.delays[k],
            1 => {
                self.cancellers.insert(3);
            }
            2 => {
                self.cancellers.remove(&1);
            }
            // the offer is a temporary entry: it lives to its live_until ledger, or for the minimum lifetime (16) if that is longer
            3 => self.pending_until = Some(offer_until(cfg).max(self.now + 15)),
            4 => self.admin_gone = true,
            _ => self.role_admin_set = true,
        }
    }
    /// would the admin-only call itself succeed once authorised? (revoking a role nobody holds is refused)
    fn call_ok(&self, cfg: &Cfg, k: usize) -> bool {
        if self.admin_gone {
            return false;
        }
        match kind_of(cfg, k) {
            2 => self.cancellers.contains(&1),
            3 => self.now <= offer_until(cfg),
            4 => !matches!(self.pending_until, Some(u) if self.now <= u),
            _ => true,
        }
    }
    fn ready(&self, cfg: &Cfg, k: usize) -> bool {
        matches!(self.st[k], S::Pending(r) if r <= self.now) && pred_of(cfg, k).map(|p| self.st[p] == S::Done).unwrap_or(true)
    }
    fn renounce(&mut self, role: u8, holder: usize, signed: bool) -> bool {
        let set = match role { 0 => &mut self.proposers, 1 => &mut self.cancellers, _ => &mut self.executors };
        signed && set.remove(&holder)
    }
    fn self_exec(&mut self, cfg: &Cfg, k: usize, meta: Meta, executor_signs: bool) -> Exp {
        let ready = self.ready(cfg, k);
        // an executor is needed only while the executor role has members (actor 2, unless it renounced)
        let need_exec = !self.executors.is_empty();
        let ok = match meta {
            _ if !self.call_ok(cfg, k) => false,
            Meta::Honest => ready && (!need_exec || (executor_signs && self.executors.contains(&2))),
            // without executors configured the executor field is irrelevant
            Meta::NoExecutor | Meta::StrangerExecutor => ready && !need_exec,
            Meta::Extra => return Exp::Unspecified,
            _ => false,
        };
        if ok {
            self.st[k] = S::Done;
            self.effect(cfg, k);
            Exp::Ok
        } else {
            Exp::Fail
        }
    }
}

pub struct Controller;

impl Check for Controller {
    type Cfg = Cfg;
    type Step = Step;
    fn id(&self) -> &'static str {
        "controller"
    }
    fn runs(&self, tier: Tier) -> u64 {
        if tier == Tier::Quick {
            15000
        } else {
            200000
        }
    }
    fn components(&self) -> serde_json::Value {
        serde_json::json!({"real": ["examples/timelock-controller (from source): __check_auth, schedule_op, cancel_op, update_delay, AccessControl", "timelock storage", "access_control storage", "macros"], "stub": ["Wallet for proposer / executor / attacker"]})
    }
    fn property_of(&self, check: &str) -> std::vec::Vec<&'static str> {
        // the self-administration path executes timelocked operations (set_execute_operation): scheduled, ready, predecessor
        // done, consumed once — C08's clauses as much as C09's; who may schedule / cancel / renounce is C09's (and C06's)
        if check.starts_with("roles.") {
            vec!["C06", "C09"]
        } else {
            vec!["C08", "C09"]
        }
    }
    fn clock_step(&self, n: u32) -> Option<Step> {
        Some(Step::Advance { n })
    }
    fn probes(&self, _prop: &str) -> std::vec::Vec<&'static str> {
        vec!["probe.decoy_next_to_pending_original", "probe.decoy_without_original", "probe.self_admin_with_only_the_decoy_ready", "probe.self_admin_with_predecessor_not_done", "probe.executor_renounced"]
    }
    fn dup_ok(&self, _s: &Step) -> bool {
        true
    }
    fn reorder_ok(&self) -> bool {
        true
    }
    fn generate(&self, rng: &mut Rng, tier: Tier) -> (Cfg, std::vec::Vec<Step>) {
        let nops = 2 + rng.below(3) as usize;
        let cfg = Cfg { start_ledger: 2 + rng.below(100_000) as u32, min_delay: 1 + rng.below(20) as u32, with_executors: rng.chance(60), delays: (0..nops).map(|k| [0u32, 3, 40, 7, 1][k % 5] + rng.below(2) as u32 * 100).collect(), preds: (0..nops).map(|k| if k > 0 && rng.chance(30) { Some(rng.below(k as u64) as usize) } else { None }).collect(), kinds: (0..nops).map(|_| match rng.below(100) { 0..=44 => 0, 45..=59 => 1, 60..=74 => 2, 75..=84 => 3, 85..=91 => 4, _ => 5 }).collect() };
        let nsteps = if tier == Tier::Quick { 20 + rng.below(30) } else { 20 + rng.below(60) } as usize;
        let mut m = Model { st: vec![S::Unset; nops], decoy: vec![S::Unset; nops], min: cfg.min_delay, now: cfg.start_ledger, cancellers: [1usize].into_iter().collect(), proposers: [1usize].into_iter().collect(), executors: if cfg.with_executors { [2usize].into_iter().collect() } else { Default::default() }, pending_until: None, admin_gone: false, role_admin_set: false };
        let mut steps = vec![];
        for _ in 0..nsteps {
            let k = rng.below(nops as u64) as usize;
            let s = match rng.below(100) {
                0..=24 => Step::Schedule { k, delay_over_min: match rng.below(5) { 0 => -1, 1 => 0, _ => rng.below(5) as i64 }, proposer: if rng.chance(88) { 1 } else { 0 }, signed: !rng.chance(6) },
                25..=26 => Step::ScheduleDecoy { k, delay_over_min: rng.below(3) as i64 },
                27 => Step::Renounce { role: rng.below(3) as u8, holder: if rng.chance(80) { 1 + rng.below(2) as usize } else { rng.below(4) as usize }, signed: rng.chance(65) },
                28..=32 => Step::Cancel { k, canceller: match rng.below(10) { 0 => 0, 1..=3 => 3, _ => 1 }, signed: !rng.chance(6) },
                33..=74 => {
                    let meta = match rng.below(12) { 0..=4 => Meta::Honest, 5 => Meta::Empty, 6 => Meta::Void, 7 => Meta::WrongSalt, 8 => Meta::WrongPred, 9 => Meta::NoExecutor, 10 => Meta::StrangerExecutor, _ => Meta::Extra };
                    Step::SelfExec { k, meta, executor_signs: !rng.chance(10) }
                }
                _ => {
                    let rs: std::vec::Vec<u32> = m.st.iter().filter_map(|s| if let S::Pending(r) = s { Some(*r) } else { None }).filter(|r| *r > m.now).collect();
                    Step::Advance { n: if !rs.is_empty() && rng.chance(75) { (*rng.pick(&rs) + rng.below(2) as u32).saturating_sub(1).saturating_sub(m.now) } else { rng.below(3) as u32 } }
                }
            };
            match &s {
                Step::Advance { n } => m.now += n,
                Step::Schedule { k, delay_over_min, proposer, signed } => {
                    let d = (m.min as i64 + delay_over_min).max(0) as u32;
                    if *signed && m.proposers.contains(proposer) && m.st[*k] == S::Unset && d >= m.min {
                        m.st[*k] = S::Pending(m.now.saturating_add(d));
                    }
                }
                Step::Cancel { k, canceller, signed } => {
                    if *signed && m.cancellers.contains(canceller) && matches!(m.st[*k], S::Pending(_)) {
                        m.st[*k] = S::Unset;
                    }
                }
                Step::ScheduleDecoy { k, delay_over_min } => {
                    let d = (m.min as i64 + delay_over_min).max(0) as u32;
                    if m.decoy[*k] == S::Unset && m.proposers.contains(&1) {
                        m.decoy[*k] = S::Pending(m.now.saturating_add(d));
                    }
                }
                Step::SelfExec { k, meta, executor_signs } => {
                    m.self_exec(&cfg, *k, *meta, *executor_signs);
                }
                Step::Renounce { role, holder, signed } => {
                    m.renounce(*role, *holder, *signed);
                }
            }
            steps.push(s);
        }
        (cfg, steps)
    }
    fn execute(&self, cfg: &Cfg, steps: &[Step], st: &mut Stats) -> Result<(), Violation> {
        let w = W::new(4, cfg.start_ledger, 16);
        let e = &w.e;
        let a = |i: usize| w.actors[i].clone();
        let execs: Vec<Address> = if cfg.with_executors { svec![e, a(2)] } else { Vec::new(e) };
        let id = e.register(TimelockController, (cfg.min_delay, svec![e, a(1)], execs, None::<Address>));
        let c = TimelockControllerClient::new(e, &id);
        let zero = BytesN::<32>::from_array(e, &[0u8; 32]);
        let salt = |k: usize| BytesN::<32>::from_array(e, &[k as u8 + 1; 32]);
        let canceller_role = Symbol::new(e, "canceller");
        let fname_str = |k: usize| -> &'static str { match kind_of(cfg, k) { 0 => "update_delay", 1 => "grant_role", 2 => "revoke_role", 3 => "transfer_admin_role", 4 => "renounce_admin", _ => "set_role_admin" } };
        let fname_of = |k: usize| Symbol::new(e, fname_str(k));
        let args_of = |k: usize| -> Vec<Val> {
            match kind_of(cfg, k) {
                0 => svec![e, cfg.delays[k].into_val(e)],
                1 => (a(3), canceller_role.clone(), id.clone()).into_val(e),
                2 => (a(1), canceller_role.clone(), id.clone()).into_val(e),
                3 => (a(3), offer_until(cfg)).into_val(e),
                4 => Vec::new(e),
                _ => (canceller_role.clone(), Symbol::new(e, "proposer")).into_val(e),
            }
        };
        let mut ids: std::vec::Vec<BytesN<32>> = vec![];
        for k in 0..cfg.delays.len() {
            let pred = pred_of(cfg, k).map(|p| ids[p].clone()).unwrap_or(zero.clone());
            ids.push(c.hash_operation(&id, &fname_of(k), &args_of(k), &pred, &salt(k)));
        }
        let pred_id = |k: usize| pred_of(cfg, k).map(|p| ids[p].clone()).unwrap_or(zero.clone());
        // the decoys' target: some other contract (never invoked)
        let other = a(3);
        let decoy_ids: std::vec::Vec<BytesN<32>> = (0..cfg.delays.len()).map(|k| c.hash_operation(&other, &fname_of(k), &args_of(k), &pred_id(k), &salt(k))).collect();
        let mut m = Model { st: vec![S::Unset; cfg.delays.len()], decoy: vec![S::Unset; cfg.delays.len()], min: cfg.min_delay, now: cfg.start_ledger, cancellers: [1usize].into_iter().collect(), proposers: [1usize].into_iter().collect(), executors: if cfg.with_executors { [2usize].into_iter().collect() } else { Default::default() }, pending_until: None, admin_gone: false, role_admin_set: false };
        for (i, s) in steps.iter().enumerate() {
            w.set_auth(&[]);
            let before = w.storage_digest(&[&id]);
            match s {
                Step::Advance { n } => {
                    w.advance(*n);
                    m.now += n;
                    st.ledgers += *n as u64; st.hit("clock.advance"); if *n > 100_000 { st.hit("clock.jump"); }
                }
                Step::Schedule { k, delay_over_min, proposer, signed } => {
                    let d = (m.min as i64 + delay_over_min).max(0) as u32;
                    let args: Vec<Val> = (id.clone(), fname_of(*k), args_of(*k), pred_id(*k), salt(*k), d, a(*proposer)).into_val(e);
                    if *signed {
                        w.set_auth(&[(*proposer, Inv::new(&id, "schedule_op", args))]);
                    }
                    let got = c.try_schedule_op(&id, &fname_of(*k), &args_of(*k), &pred_id(*k), &salt(*k), &d, &a(*proposer)).is_ok();
                    let exp = *signed && m.proposers.contains(proposer) && m.st[*k] == S::Unset && d >= m.min;
                    st.tx("schedule_op", got);
                    if got != exp {
                        return Err(violation("roles.schedule_cancel_execute", "schedule_op", i, format!("{s:?}: real {got} model {exp}; {m:?}")));
                    }
                    if got {
                        m.st[*k] = S::Pending(m.now.saturating_add(d));
                    }
                }
                Step::Cancel { k, canceller, signed } => {
                    if *signed {
                        w.set_auth(&[(*canceller, Inv::new(&id, "cancel_op", (ids[*k].clone(), a(*canceller)).into_val(e)))]);
                    }
                    let got = c.try_cancel_op(&ids[*k], &a(*canceller)).is_ok();
                    let exp = *signed && m.cancellers.contains(canceller) && matches!(m.st[*k], S::Pending(_));
                    st.tx("cancel_op", got);
                    if got != exp {
                        return Err(violation("roles.schedule_cancel_execute", "cancel_op", i, format!("{s:?}: real {got} model {exp}; {m:?}")));
                    }
                    if got {
                        m.st[*k] = S::Unset;
                    }
                }
                Step::Renounce { role, holder, signed } => {
                    let rs = Symbol::new(e, ["proposer", "canceller", "executor"][*role as usize]);
                    if *signed {
                        w.set_auth(&[(*holder, Inv::new(&id, "renounce_role", (rs.clone(), a(*holder)).into_val(e)))]);
                    } else {
                        st.hit("fault.auth_missing");
                    }
                    let got = c.try_renounce_role(&rs, &a(*holder)).is_ok();
                    let exp = m.renounce(*role, *holder, *signed);
                    st.tx("renounce_role", got);
                    if got && *role == 2 { st.hit("probe.executor_renounced"); }
                    if got != exp {
                        return Err(violation("roles.schedule_cancel_execute", "renounce_role", i, format!("{s:?}: real {got} model {exp}; {m:?}")));
                    }
                }
                Step::ScheduleDecoy { k, delay_over_min } => {
                    let d = (m.min as i64 + delay_over_min).max(0) as u32;
                    let args: Vec<Val> = (other.clone(), fname_of(*k), args_of(*k), pred_id(*k), salt(*k), d, a(1)).into_val(e);
                    w.set_auth(&[(1, Inv::new(&id, "schedule_op", args))]);
                    let got = c.try_schedule_op(&other, &fname_of(*k), &args_of(*k), &pred_id(*k), &salt(*k), &d, &a(1)).is_ok();
                    let exp = m.decoy[*k] == S::Unset && m.proposers.contains(&1);
                    st.tx("schedule_decoy", got);
                    if got {
                        st.hit(if matches!(m.st[*k], S::Pending(_)) { "probe.decoy_next_to_pending_original" } else { "probe.decoy_without_original" });
                    }
                    if got != exp {
                        return Err(violation("payload.exactly_that_call", "schedule_decoy", i, format!("{s:?} (same call on another target): real {got} model {exp}; {m:?}")));
                    }
                    if got {
                        m.decoy[*k] = S::Pending(m.now.saturating_add(d));
                    }
                }
                Step::SelfExec { k, meta, executor_signs } => {
                    if matches!(m.decoy[*k], S::Pending(r) if r <= m.now) && !matches!(m.st[*k], S::Pending(r) if r <= m.now) {
                        st.hit("probe.self_admin_with_only_the_decoy_ready");
                    }
                    // anyone (actor 0) calls update_delay(d) directly, attaching an entry for the controller's own address
                    let good = OperationMeta { predecessor: pred_id(*k), salt: salt(*k), executor: Some(a(2)) };
                    let metas: Option<Vec<OperationMeta>> = match meta {
                        Meta::Honest => Some(svec![e, good.clone()]),
                        Meta::Empty => Some(Vec::new(e)),
                        Meta::Void => None,
                        Meta::WrongSalt => Some(svec![e, OperationMeta { salt: salt(*k + 7), ..good.clone() }]),
                        Meta::WrongPred => Some(svec![e, OperationMeta { predecessor: salt(*k), ..good.clone() }]),
                        Meta::NoExecutor => Some(svec![e, OperationMeta { executor: None, ..good.clone() }]),
                        Meta::StrangerExecutor => Some(svec![e, OperationMeta { executor: Some(a(0)), ..good.clone() }]),
                        Meta::Extra => Some(svec![e, good.clone(), OperationMeta { salt: salt(*k + 9), ..good.clone() }]),
                    };
                    if *meta != Meta::Honest {
                        st.hit("fault.crafted_controller_payload");
                    }
                    let sig = match &metas {
                        Some(v) => {
                            let val: Val = v.clone().into_val(e);
                            xdr::ScVal::try_from_val(e, &val).unwrap()
                        }
                        None => xdr::ScVal::Void,
                    };
                    let inv = Inv::new(&id, fname_str(*k), args_of(*k));
                    let entry = xdr::SorobanAuthorizationEntry {
                        credentials: xdr::SorobanCredentials::Address(xdr::SorobanAddressCredentials { address: (&id).try_into().unwrap(), nonce: w.next_nonce(), signature_expiration_ledger: w.now() + 100, signature: sig }),
                        root_invocation: inv.to_xdr(e),
                    };
                    // executor (actor 2; the stranger for StrangerExecutor) authorises the execute_op-tagged arguments
                    let exec_args: Vec<Val> = (Symbol::new(e, "execute_op"), id.clone(), fname_of(*k), args_of(*k), pred_id(*k), salt(*k)).into_val(e);
                    let mut wallets = vec![];
                    if *executor_signs {
                        let who = if *meta == Meta::StrangerExecutor { 0 } else { 2 };
                        wallets.push((who, Inv::new(&id, "__check_auth", exec_args)));
                    }
                    w.set_auth_mixed(&wallets, vec![entry]);
                    let was_ready = m.ready(cfg, *k);
                    if matches!(m.st[*k], S::Pending(r) if r <= m.now) && !was_ready {
                        st.hit("probe.self_admin_with_predecessor_not_done");
                    }
                    let got = e.try_invoke_contract::<Val, soroban_sdk::Error>(&id, &fname_of(*k), args_of(*k)).map(|r| r.is_ok()).unwrap_or(false);
                    let snapshot = m.clone();
                    let exp = m.self_exec(cfg, *k, *meta, *executor_signs);
                    st.tx(&format!("self_admin.{:?}", meta), got);
                    match (&exp, got) {
                        (Exp::Fail, true) => {
                            let check = if matches!(meta, Meta::Empty | Meta::Void | Meta::WrongSalt | Meta::WrongPred) || !was_ready { "payload.short_or_mismatched_rejected" } else { "self_admin.needs_executor" };
                            return Err(violation(check, "update_delay", i, format!("{s:?} went through; op state before {:?}, now {}, with_executors {}", snapshot.st[*k], m.now, cfg.with_executors)));
                        }
                        (Exp::Ok, false) => return Err(violation("live.honest_self_admin_succeeds", "update_delay", i, format!("{s:?} refused; {snapshot:?} with_executors {}", cfg.with_executors))),
                        (Exp::Unspecified, true) => {
                            // only the safety clause: a ready operation for exactly this call must have been consumed
                            if !was_ready {
                                return Err(violation("self_admin.needs_ready_op_consumed", "update_delay", i, format!("{s:?} went through without a ready operation")));
                            }
                            m.st[*k] = S::Done;
                            m.effect(cfg, *k);
                        }
                        _ => {}
                    }
                    if !got && w.storage_digest(&[&id]) != before {
                        return Err(violation("fail.no_trace", "update_delay", i, format!("state changed by refused {s:?}")));
                    }
                }
            }
            // observable state
            if c.get_min_delay() != m.min {
                return Err(violation("self_admin.needs_ready_op_consumed", "min_delay", i, format!("get_min_delay {} model {} after {s:?}", c.get_min_delay(), m.min)));
            }
            for k in 0..cfg.delays.len() {
                let (done, pending) = (c.is_operation_done(&ids[k]), c.is_operation_pending(&ids[k]));
                let want = (m.st[k] == S::Done, matches!(m.st[k], S::Pending(_)));
                if (done, pending) != want {
                    return Err(violation("state.model_eq", "op", i, format!("op {k}: done/pending {done}/{pending}, model {:?}", m.st[k])));
                }
                let (done, pending) = (c.is_operation_done(&decoy_ids[k]), c.is_operation_pending(&decoy_ids[k]));
                if (done, pending) != (false, matches!(m.decoy[k], S::Pending(_))) {
                    return Err(violation("payload.exactly_that_call", "decoy", i, format!("look-alike of op {k} on another target: done/pending {done}/{pending}, model {:?} after {s:?}", m.decoy[k])));
                }
            }
            for x in 0..4usize {
                if c.has_role(&a(x), &Symbol::new(e, "proposer")).is_some() != m.proposers.contains(&x) || c.has_role(&a(x), &Symbol::new(e, "executor")).is_some() != m.executors.contains(&x) {
                    return Err(violation("roles.schedule_cancel_execute", "roles", i, format!("proposer / executor role of actor {x} disagrees with the model {m:?} after {s:?}")));
                }
            }
            for x in 0..4usize {
                if c.has_role(&a(x), &canceller_role).is_some() != m.cancellers.contains(&x) {
                    return Err(violation("self_admin.needs_ready_op_consumed", "roles", i, format!("canceller role of actor {x} disagrees with the model {:?} after {s:?}", m.cancellers)));
                }
            }
            if c.get_admin() != if m.admin_gone { None } else { Some(id.clone()) } {
                return Err(violation("self_admin.needs_ready_op_consumed", "admin", i, format!("admin {:?}, model gone={} after {s:?}", c.get_admin(), m.admin_gone)));
            }
            if c.get_role_admin(&canceller_role).is_some() != m.role_admin_set {
                return Err(violation("self_admin.needs_ready_op_consumed", "role_admin", i, format!("admin role of canceller {:?}, model set={} after {s:?}", c.get_role_admin(&canceller_role), m.role_admin_set)));
            }
            st.state(&(m.st.iter().map(|x| match x { S::Unset => 0u8, S::Done => 3, S::Pending(r) => if *r > m.now { 1 } else { 2 } }).collect::<std::vec::Vec<_>>(), cfg.with_executors, cfg.kinds.clone(), m.cancellers.clone(), m.proposers.clone(), m.executors.clone(), cfg.preds.clone(), m.admin_gone, m.role_admin_set, matches!(m.pending_until, Some(u) if m.now <= u), m.decoy.iter().map(|x| match x { S::Pending(r) => if *r > m.now { 1u8 } else { 2 }, _ => 0 }).collect::<std::vec::Vec<_>>()));
        }
        Ok(())
    }
}
