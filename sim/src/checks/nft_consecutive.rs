//! C10 + C11 on the consecutive NFT flavour (examples/nft-consecutive compiled from source).

use crate::core::*;
use crate::world::{Base as W, Inv};
use serde::{Deserialize, Serialize};
use soroban_sdk::{IntoVal, String as SString};
use std::collections::{BTreeMap, BTreeSet};

mod ex {
    #[path = "/repo/examples/nft-consecutive/src/contract.rs"]
    pub mod c;
}
use ex::c::{ExampleContract, ExampleContractClient};

/// The same token written the other way the library offers: no method spelled out, everything left to the
/// `NonFungibleToken` / `NonFungibleBurnable` DEFAULT methods, which dispatch through `ContractOverrides for Consecutive`
/// (the example's explicit `Self::ContractType::transfer(..)` resolves to the inherent functions instead and never reaches
/// that impl). Same entry-point names and constructor as the example, so the example's client drives both.
pub mod defaults {
    use soroban_sdk::{contract, contractimpl, contracttype, Address, Env, String};
    use stellar_tokens::non_fungible::{burnable::NonFungibleBurnable, consecutive::{Consecutive, NonFungibleConsecutive}, Base, NonFungibleToken};
    #[contracttype]
    pub enum DataKey { Owner }
    #[contract]
    pub struct ConsDefaults;
    #[contractimpl]
    impl ConsDefaults {
        pub fn __constructor(e: &Env, uri: String, name: String, symbol: String, owner: Address) {
            e.storage().instance().set(&DataKey::Owner, &owner);
            Base::set_metadata(e, uri, name, symbol);
        }
        pub fn batch_mint(e: &Env, to: Address, amount: u32) -> u32 {
            let owner: Address = e.storage().instance().get(&DataKey::Owner).expect("owner should be set");
            owner.require_auth();
            Consecutive::batch_mint(e, &to, amount)
        }
    }
    #[contractimpl(contracttrait)]
    impl NonFungibleToken for ConsDefaults {
        type ContractType = Consecutive;
    }
    impl NonFungibleConsecutive for ConsDefaults {}
    #[contractimpl(contracttrait)]
    impl NonFungibleBurnable for ConsDefaults {}
}

#[derive(Clone, Copy, Debug, Serialize, Deserialize, PartialEq)]
pub enum Live {
    Revoke,
    Rel(i64),
}
impl Live {
    fn abs(self, now: u32) -> u32 {
        match self {
            Live::Revoke => 0,
            Live::Rel(k) => (now as i64 + k).max(1) as u32,
        }
    }
}
#[derive(Clone, Debug, Serialize, Deserialize)]
pub enum Step {
    BatchMint { to: usize, amount: u32, signed: bool },
    Transfer { from: usize, to: usize, id: u32, signer: Option<usize> },
    TransferFrom { spender: usize, from: usize, to: usize, id: u32, signer: Option<usize> },
    Burn { from: usize, id: u32, signer: Option<usize> },
    BurnFrom { spender: usize, from: usize, id: u32, signer: Option<usize> },
    Approve { approver: usize, approved: usize, id: u32, live: Live, signer: Option<usize> },
    ApproveAll { owner: usize, operator: usize, live: Live, signer: Option<usize> },
    Advance { n: u32 },
}
#[derive(Clone, Debug, Serialize, Deserialize)]
pub struct Cfg {
    pub actors: usize,
    pub start_ledger: u32,
    /// run against the defaults-based contract instead of examples/nft-consecutive
    #[serde(default)]
    pub defaults: bool,
}
const MAX_TTL: u32 = 6_311_999;

#[derive(Clone, Debug, Default)]
struct Model {
    batches: Vec<(u32, u32, usize)>, // (first, last, initial owner)
    moved: BTreeMap<u32, Option<usize>>, // ids whose owner differs from the batch owner: Some(new) or None (burned)
    next: u32,
    appr: BTreeMap<u32, (usize, u32)>,
    ops: BTreeMap<(usize, usize), u32>,
    now: u32,
    bal: BTreeMap<usize, u32>,
}
impl Model {
    fn owner_of(&self, id: u32) -> Option<usize> {
        if id >= self.next {
            return None;
        }
        if let Some(m) = self.moved.get(&id) {
            return *m;
        }
        self.batches.iter().find(|b| b.0 <= id && id <= b.1).map(|b| b.2)
    }
    fn approved(&self, id: u32) -> Option<usize> {
        self.appr.get(&id).filter(|a| a.1 >= self.now).map(|a| a.0)
    }
    fn operator(&self, o: usize, op: usize) -> bool {
        self.ops.get(&(o, op)).map(|l| *l >= self.now).unwrap_or(false)
    }
    fn can_spend(&self, spender: usize, from: usize, id: u32) -> bool {
        spender == from || self.approved(id) == Some(spender) || self.operator(from, spender)
    }
    fn mv(&mut self, id: u32, to: Option<usize>) {
        let from = self.owner_of(id).unwrap();
        *self.bal.entry(from).or_insert(0) -= 1;
        if let Some(t) = to {
            *self.bal.entry(t).or_insert(0) += 1;
        }
        self.moved.insert(id, to);
        self.appr.remove(&id);
    }
    fn live_ok(&self, l: u32) -> bool {
        l >= self.now && l <= self.now + MAX_TTL
    }
    fn apply(&mut self, s: &Step) -> bool {
        match *s {
            Step::Advance { n } => {
                self.now += n;
                true
            }
            Step::BatchMint { to, amount, signed } => {
                if !signed || amount == 0 || amount > 32_000 || self.next.checked_add(amount).is_none() {
                    return false;
                }
                self.batches.push((self.next, self.next + amount - 1, to));
                self.next += amount;
                *self.bal.entry(to).or_insert(0) += amount;
                true
            }
            Step::Transfer { from, to, id, signer } => {
                if signer != Some(from) || self.owner_of(id) != Some(from) {
                    return false;
                }
                self.mv(id, Some(to));
                true
            }
            Step::TransferFrom { spender, from, to, id, signer } => {
                if signer != Some(spender) || self.owner_of(id) != Some(from) || !self.can_spend(spender, from, id) {
                    return false;
                }
                self.mv(id, Some(to));
                true
            }
            Step::Burn { from, id, signer } => {
                if signer != Some(from) || self.owner_of(id) != Some(from) {
                    return false;
                }
                self.mv(id, None);
                true
            }
            Step::BurnFrom { spender, from, id, signer } => {
                if signer != Some(spender) || self.owner_of(id) != Some(from) || !self.can_spend(spender, from, id) {
                    return false;
                }
                self.mv(id, None);
                true
            }
            Step::Approve { approver, approved, id, live, signer } => {
                let Some(o) = self.owner_of(id) else { return false };
                if signer != Some(approver) || !(approver == o || self.operator(o, approver)) {
                    return false;
                }
                match live {
                    Live::Revoke => {
                        self.appr.remove(&id);
                        true
                    }
                    Live::Rel(_) => {
                        let l = live.abs(self.now);
                        if !self.live_ok(l) {
                            return false;
                        }
                        self.appr.insert(id, (approved, l));
                        true
                    }
                }
            }
            Step::ApproveAll { owner, operator, live, signer } => {
                if signer != Some(owner) {
                    return false;
                }
                match live {
                    Live::Revoke => {
                        self.ops.remove(&(owner, operator));
                        true
                    }
                    Live::Rel(_) => {
                        let l = live.abs(self.now);
                        if !self.live_ok(l) {
                            return false;
                        }
                        self.ops.insert((owner, operator), l);
                        true
                    }
                }
            }
        }
    }
    fn interesting_ids(&self, rng: &mut Rng) -> u32 {
        let mut c: Vec<u32> = vec![];
        for b in self.batches.iter().rev().take(4) {
            c.extend([b.0, b.1, b.0.saturating_add(1), b.1.saturating_sub(1)]);
            // bucket (3200) and item (32) edges inside the batch
            let k = (b.0 / 3200 + 1) * 3200;
            if k <= b.1 {
                c.extend([k - 1, k]);
            }
            let k = (b.0 / 32 + 1) * 32;
            if k <= b.1 {
                c.extend([k - 1, k]);
            }
        }
        for (id, _) in self.moved.iter().rev().take(6) {
            c.extend([id.saturating_sub(1), *id, id + 1, id + 2, id.saturating_sub(2)]);
        }
        c.push(self.next);
        c.push(self.next + 5);
        if self.next > 0 {
            c.push(rng.below(self.next as u64) as u32);
            c.push(rng.below(self.next as u64) as u32);
        }
        *rng.pick(&c)
    }
}

pub struct NftConsecutive;

impl Check for NftConsecutive {
    type Cfg = Cfg;
    type Step = Step;
    fn id(&self) -> &'static str {
        "nft_consecutive"
    }
    fn runs(&self, tier: Tier) -> u64 {
        if tier == Tier::Quick {
            800
        } else {
            12000
        }
    }
    fn components(&self) -> serde_json::Value {
        serde_json::json!({"real": ["examples/nft-consecutive (from source)", "non_fungible::{Base, consecutive::Consecutive, sequential, burnable}"], "stub": ["Wallet"]})
    }
    fn clock_step(&self, n: u32) -> Option<Step> {
        Some(Step::Advance { n })
    }
    fn probes(&self, _prop: &str) -> std::vec::Vec<&'static str> {
        vec!["probe.batch_crosses_bucket", "probe.full_sweep", "probe.run_on_defaults_based_contract", "probe.run_on_example_contract"]
    }
    fn dup_ok(&self, _s: &Step) -> bool {
        true
    }
    fn reorder_ok(&self) -> bool {
        true
    }
    fn property_of(&self, check: &str) -> std::vec::Vec<&'static str> {
        if check.starts_with("owner.") || check.starts_with("balance.") || check.starts_with("enum.") || check.starts_with("supply.") || check.starts_with("ids.") || check.starts_with("others.") {
            vec!["C10"]
        } else if check.starts_with("approval.") || check.starts_with("operator.") || check.starts_with("move.") || check.starts_with("approve.") {
            vec!["C11"]
        } else {
            vec![]
        }
    }
    fn generate(&self, rng: &mut Rng, tier: Tier) -> (Cfg, Vec<Step>) {
        let cfg = Cfg { actors: 3 + rng.below(3) as usize, start_ledger: 1 + rng.below(100_000) as u32, defaults: rng.chance(40) };
        let n = cfg.actors as u64;
        let nsteps = if tier == Tier::Quick { 25 + rng.below(50) } else { 25 + rng.below(100) } as usize;
        let mut m = Model { now: cfg.start_ledger, ..Default::default() };
        let fault = if rng.chance(30) { 0 } else { 4 + rng.below(16) };
        let big = rng.chance(35);
        let mut steps = vec![];
        for k in 0..nsteps {
            let any = |rng: &mut Rng| rng.below(n) as usize;
            let s = if k == 0 || rng.chance(8) {
                let amount = match rng.below(12) {
                    0 => 0,
                    1 => 32_001,
                    2 if big => 32_000,
                    3 if big => 3199 + rng.below(3) as u32,
                    4 if big => 6400 + rng.below(100) as u32,
                    5 => 31 + rng.below(3) as u32,
                    6 => 1,
                    _ => 2 + rng.below(12) as u32,
                };
                Step::BatchMint { to: any(rng), amount, signed: !rng.chance(5) }
            } else {
                let id = m.interesting_ids(rng);
                let o = m.owner_of(id);
                let from = if rng.chance(88) { o.unwrap_or_else(|| any(rng)) } else { any(rng) };
                let sign = |rng: &mut Rng, who: usize| if rng.chance(fault) { if rng.chance(50) { None } else { Some(rng.below(n) as usize) } } else { Some(who) };
                match rng.below(100) {
                    0..=24 => {
                        let to = if rng.chance(8) { from } else { any(rng) };
                        Step::Transfer { from, to, id, signer: sign(rng, from) }
                    }
                    25..=39 => {
                        // spender: approved / operator / stranger
                        let spender = match rng.below(4) {
                            0 => m.approved(id).unwrap_or_else(|| any(rng)),
                            1 => m.ops.keys().find(|k| k.0 == from).map(|k| k.1).unwrap_or_else(|| any(rng)),
                            2 => from,
                            _ => any(rng),
                        };
                        Step::TransferFrom { spender, from, to: any(rng), id, signer: sign(rng, spender) }
                    }
                    40..=51 => Step::Burn { from, id, signer: sign(rng, from) },
                    52..=57 => {
                        let spender = match rng.below(3) {
                            0 => m.approved(id).unwrap_or_else(|| any(rng)),
                            1 => m.ops.keys().find(|k| k.0 == from).map(|k| k.1).unwrap_or_else(|| any(rng)),
                            _ => any(rng),
                        };
                        Step::BurnFrom { spender, from, id, signer: sign(rng, spender) }
                    }
                    58..=72 => {
                        let approver = match rng.below(6) {
                            0 => m.ops.keys().find(|k| Some(k.0) == o).map(|k| k.1).unwrap_or(from),
                            1 => any(rng),
                            // the currently approved account tries to (re-)approve: only the owner or an operator may
                            2 => m.approved(id).unwrap_or(from),
                            // an operator of somebody else
                            3 => m.ops.keys().find(|k| Some(k.0) != o).map(|k| k.1).unwrap_or(from),
                            _ => from,
                        };
                        let live = match rng.below(8) {
                            0 => Live::Revoke,
                            1 => Live::Rel(-2),
                            2 => Live::Rel(0),
                            _ => Live::Rel(1 + rng.below(30) as i64),
                        };
                        Step::Approve { approver, approved: any(rng), id, live, signer: sign(rng, approver) }
                    }
                    73..=82 => {
                        let owner = any(rng);
                        let live = match rng.below(8) {
                            0 => Live::Revoke,
                            1 => Live::Rel(-1),
                            2 => Live::Rel(0),
                            _ => Live::Rel(1 + rng.below(30) as i64),
                        };
                        Step::ApproveAll { owner, operator: any(rng), live, signer: sign(rng, owner) }
                    }
                    _ => {
                        let ds: Vec<u32> = m.appr.values().map(|a| a.1).chain(m.ops.values().cloned()).filter(|l| *l >= m.now).collect();
                        let nn = if !ds.is_empty() && rng.chance(65) {
                            (*rng.pick(&ds) + rng.below(3) as u32).saturating_sub(1).saturating_sub(m.now)
                        } else if rng.chance(10) {
                            100_000 + rng.below(8_000_000) as u32
                        } else {
                            rng.below(4) as u32
                        };
                        Step::Advance { n: nn }
                    }
                }
            };
            m.apply(&s);
            steps.push(s);
        }
        (cfg, steps)
    }
    fn simplify(&self, s: &Step) -> Vec<Step> {
        match s {
            Step::Advance { n } if *n > 1 => vec![Step::Advance { n: 1 }, Step::Advance { n: n / 2 }],
            Step::BatchMint { to, amount, signed } if *amount > 2 => vec![Step::BatchMint { to: *to, amount: amount / 2, signed: *signed }, Step::BatchMint { to: *to, amount: amount - 1, signed: *signed }],
            _ => vec![],
        }
    }
    fn execute(&self, cfg: &Cfg, steps: &[Step], st: &mut Stats) -> Result<(), Violation> {
        let w = W::new(cfg.actors, cfg.start_ledger, 16);
        let e = &w.e;
        let a = |i: usize| w.actors[i].clone();
        let ctor = (SString::from_str(e, "https://x/"), SString::from_str(e, "n"), SString::from_str(e, "s"), a(0));
        let id = if cfg.defaults { e.register(defaults::ConsDefaults, ctor) } else { e.register(ExampleContract, ctor) };
        st.hit(if cfg.defaults { "probe.run_on_defaults_based_contract" } else { "probe.run_on_example_contract" });
        let c = ExampleContractClient::new(e, &id);
        let mut m = Model { now: cfg.start_ledger, ..Default::default() };
        let mut watch: BTreeSet<u32> = BTreeSet::new();
        for (i, s) in steps.iter().enumerate() {
            let one = |who: Option<usize>, f: &'static str, args: soroban_sdk::Vec<soroban_sdk::Val>| match who {
                Some(x) => w.set_auth(&[(x, Inv::new(&id, f, args))]),
                None => w.set_auth(&[]),
            };
            let now = w.now();
            let (kind, got) = match s {
                Step::Advance { n } => {
                    w.advance(*n);
                    st.ledgers += *n as u64; st.hit("clock.advance"); if *n > 100_000 { st.hit("clock.jump"); }
                    ("advance", true)
                }
                Step::BatchMint { to, amount, signed } => {
                    one(if *signed { Some(0) } else { None }, "batch_mint", (a(*to), *amount).into_val(e));
                    let r = c.try_batch_mint(&a(*to), amount).is_ok();
                    if r {
                        let f = m.next;
                        watch.extend([f, f + amount - 1, f.saturating_sub(1), f + amount]);
                        if f / 3200 != (f + amount - 1) / 3200 {
                            st.hit("probe.batch_crosses_bucket");
                            let k = (f / 3200 + 1) * 3200;
                            watch.extend([k - 1, k]);
                        }
                    }
                    ("batch_mint", r)
                }
                Step::Transfer { from, to, id: t, signer } => {
                    one(*signer, "transfer", (a(*from), a(*to), *t).into_val(e));
                    ("transfer", c.try_transfer(&a(*from), &a(*to), t).is_ok())
                }
                Step::TransferFrom { spender, from, to, id: t, signer } => {
                    one(*signer, "transfer_from", (a(*spender), a(*from), a(*to), *t).into_val(e));
                    ("transfer_from", c.try_transfer_from(&a(*spender), &a(*from), &a(*to), t).is_ok())
                }
                Step::Burn { from, id: t, signer } => {
                    one(*signer, "burn", (a(*from), *t).into_val(e));
                    ("burn", c.try_burn(&a(*from), t).is_ok())
                }
                Step::BurnFrom { spender, from, id: t, signer } => {
                    one(*signer, "burn_from", (a(*spender), a(*from), *t).into_val(e));
                    ("burn_from", c.try_burn_from(&a(*spender), &a(*from), t).is_ok())
                }
                Step::Approve { approver, approved, id: t, live, signer } => {
                    let l = live.abs(now);
                    one(*signer, "approve", (a(*approver), a(*approved), *t, l).into_val(e));
                    ("approve", c.try_approve(&a(*approver), &a(*approved), t, &l).is_ok())
                }
                Step::ApproveAll { owner, operator, live, signer } => {
                    let l = live.abs(now);
                    one(*signer, "approve_for_all", (a(*owner), a(*operator), l).into_val(e));
                    ("approve_for_all", c.try_approve_for_all(&a(*owner), &a(*operator), &l).is_ok())
                }
            };
            match s {
                Step::Transfer { from: p, signer, .. } | Step::Burn { from: p, signer, .. } | Step::TransferFrom { spender: p, signer, .. } | Step::BurnFrom { spender: p, signer, .. } | Step::Approve { approver: p, signer, .. } | Step::ApproveAll { owner: p, signer, .. } => {
                    if signer.is_none() {
                        st.hit("fault.auth_missing");
                    } else if *signer != Some(*p) {
                        st.hit("fault.auth_foreign");
                    }
                }
                _ => {}
            }
            let exp = m.apply(s);
            if kind != "advance" {
                st.tx(kind, got);
            }
            if got != exp {
                let check = match (got, kind) {
                    (true, "transfer" | "transfer_from" | "burn" | "burn_from") => "move.needs_owner_approved_or_operator",
                    (true, "approve" | "approve_for_all") => "approve.needs_owner_or_operator",
                    (true, _) => "refine.must_fail",
                    (false, _) => "live.authorised_call_succeeds",
                };
                return Err(violation(check, kind, i, format!("model expected {exp}, real {got} at {s:?}; now={} owner_model={:?}", w.now(), match s { Step::Transfer { id, .. } | Step::TransferFrom { id, .. } | Step::Burn { id, .. } | Step::BurnFrom { id, .. } | Step::Approve { id, .. } => m.owner_of(*id), _ => None })));
            }
            if let Step::Transfer { id: t, .. } | Step::TransferFrom { id: t, .. } | Step::Burn { id: t, .. } | Step::BurnFrom { id: t, .. } | Step::Approve { id: t, .. } = s {
                watch.extend([t.saturating_sub(2), t.saturating_sub(1), *t, t + 1, t + 2]);
            }
            // ---- ownership of watched ids (+ a margin beyond next)
            let mut ids: Vec<u32> = watch.iter().cloned().collect();
            if ids.len() > 60 {
                // keep the most recent part of the watch list plus a deterministic sample
                let l = ids.len();
                let mut keep: Vec<u32> = ids[l - 40..].to_vec();
                keep.extend(ids.iter().step_by(l / 20).cloned());
                ids = keep;
            }
            ids.push(m.next);
            for t in ids {
                let r = c.try_owner_of(&t);
                let want = m.owner_of(t);
                let ok = match (&r, want) {
                    (Ok(Ok(addr)), Some(x)) => *addr == a(x),
                    (Ok(Ok(_)), None) => false,
                    (_, None) => true,
                    (_, Some(_)) => false,
                };
                if !ok {
                    return Err(violation("owner.model_eq", kind, i, format!("owner_of({t}) = {:?}, model {:?} after {s:?}", r.map(|x| x.map(|ad| w.idx(&ad))), want)));
                }
                let ga = c.get_approved(&t);
                if ga != m.approved(t).map(|x| a(x)) {
                    return Err(violation("approval.model_eq", kind, i, format!("get_approved({t}) = {:?} model {:?} now {}", ga.map(|ad| w.idx(&ad)), m.approved(t), w.now())));
                }
                st.hit("query.owner_of");
            }
            for x in 0..cfg.actors {
                let b = c.balance(&a(x));
                if b != *m.bal.get(&x).unwrap_or(&0) {
                    return Err(violation("balance.count_eq", kind, i, format!("balance({x}) = {b}, model {:?}", m.bal.get(&x))));
                }
                for y in 0..cfg.actors {
                    if c.is_approved_for_all(&a(x), &a(y)) != m.operator(x, y) {
                        return Err(violation("operator.model_eq", kind, i, format!("is_approved_for_all({x},{y}) != model {} now {}", m.operator(x, y), w.now())));
                    }
                }
            }
            st.state(&(m.batches.len(), m.moved.len().min(12), m.appr.len().min(4), m.ops.len().min(4)));
        }
        // ---- end of run: full sweep when the id range is small enough
        if m.next <= 4000 {
            for t in 0..m.next + 3 {
                let r = c.try_owner_of(&t);
                let want = m.owner_of(t);
                let ok = match (&r, want) {
                    (Ok(Ok(addr)), Some(x)) => *addr == a(x),
                    (Ok(Ok(_)), None) => false,
                    (_, None) => true,
                    (_, Some(_)) => false,
                };
                if !ok {
                    return Err(violation("owner.model_eq", "sweep", steps.len(), format!("owner_of({t}) = {:?}, model {:?}", r.map(|x| x.map(|ad| w.idx(&ad))), want)));
                }
            }
            st.hit("probe.full_sweep");
        }
        Ok(())
    }
}
