//! C17 on examples/merkle-voting (compiled from source): one vote per leaf index, tallies move only with a
//! genuine proof against the root, a refused vote marks nothing and changes no tally, and "has voted" lasts forever.

use crate::checks::merkle::build;
use crate::core::*;
use crate::world::Base as W;
use serde::{Deserialize, Serialize};
#[allow(unused_imports)]
use soroban_sdk::{contract, contractimpl, contracttype, xdr::ToXdr, Address, Bytes, BytesN, Env, IntoVal, Vec};

mod ex {
    #[path = "/repo/examples/merkle-voting/src/contract.rs"]
    pub mod c;
}
use ex::c::{MerkleVoting, MerkleVotingClient, VoteData};

#[derive(Clone, Copy, Debug, Serialize, Deserialize, PartialEq)]
pub enum Corrupt {
    None,
    Power,
    Account,
    Index(usize),
    ProofFlip(usize),
    ProofTruncate,
    ProofExtend,
    ProofOfOther(usize),
}
#[derive(Clone, Debug, Serialize, Deserialize)]
pub enum Step {
    Vote { k: usize, corrupt: Corrupt, approve: bool },
    Advance { n: u32 },
}
#[derive(Clone, Debug, Serialize, Deserialize)]
pub struct Cfg {
    pub leaves: std::vec::Vec<(usize, u32)>, // (voter actor, voting power)
}

pub struct MerkleVote;

impl Check for MerkleVote {
    type Cfg = Cfg;
    type Step = Step;
    fn id(&self) -> &'static str {
        "merkle_voting"
    }
    fn runs(&self, tier: Tier) -> u64 {
        if tier == Tier::Quick {
            3000
        } else {
            30000
        }
    }
    fn components(&self) -> serde_json::Value {
        serde_json::json!({"real": ["examples/merkle-voting (from source)", "merkle_distributor::MerkleDistributor<Sha256>::{set_root, verify_and_set_claimed, is_claimed}", "crypto::{merkle::Verifier, sha256}"], "stub": ["reference tree builder in the harness (hash primitive = host sha256)"]})
    }
    fn clock_step(&self, n: u32) -> Option<Step> {
        Some(Step::Advance { n })
    }
    fn probes(&self, _prop: &str) -> std::vec::Vec<&'static str> {
        vec!["probe.repeated_vote_refused", "probe.voted_flag_queried_after_long_time", "fault.corrupted_claim"]
    }
    fn dup_ok(&self, _s: &Step) -> bool {
        true
    }
    fn reorder_ok(&self) -> bool {
        true
    }
    fn generate(&self, rng: &mut Rng, tier: Tier) -> (Cfg, std::vec::Vec<Step>) {
        let n = match rng.below(6) { 0 => 1, 1 => 2, 2 => 3, _ => 1 + rng.below(if tier == Tier::Quick { 20 } else { 120 }) as usize };
        let cfg = Cfg { leaves: (0..n).map(|_| (rng.below(4) as usize, 1 + rng.below(1000) as u32)).collect() };
        let nsteps = if tier == Tier::Quick { 12 + rng.below(30) } else { 12 + rng.below(90) } as usize;
        let mut steps = vec![];
        for _ in 0..nsteps {
            if rng.chance(8) {
                steps.push(Step::Advance { n: match rng.below(3) { 0 => 1 + rng.below(20) as u32, 1 => 100_000 + rng.below(1_000_000) as u32, _ => 2_000_000 + rng.below(5_000_000) as u32 } });
                continue;
            }
            let k = rng.below(n as u64) as usize;
            let corrupt = if rng.chance(50) {
                Corrupt::None
            } else {
                match rng.below(7) {
                    0 => Corrupt::Power,
                    1 => Corrupt::Account,
                    2 => Corrupt::Index(rng.below(n as u64 + 2) as usize),
                    3 => Corrupt::ProofFlip(rng.below(8) as usize),
                    4 => Corrupt::ProofTruncate,
                    5 => Corrupt::ProofExtend,
                    _ => Corrupt::ProofOfOther(rng.below(n as u64) as usize),
                }
            };
            steps.push(Step::Vote { k, corrupt, approve: rng.chance(50) });
        }
        (cfg, steps)
    }
    fn execute(&self, cfg: &Cfg, steps: &[Step], st: &mut Stats) -> Result<(), Violation> {
        let w = W::new(4, 100, 16);
        let e = &w.e;
        let a = |i: usize| w.actors[i].clone();
        let n = cfg.leaves.len();
        let leaf_hashes: std::vec::Vec<[u8; 32]> = cfg.leaves.iter().enumerate().map(|(i, (v, p))| e.crypto().sha256(&VoteData { index: i as u32, account: a(*v), voting_power: *p as i128 }.to_xdr(e)).to_array()).collect();
        let (root, proofs) = build(e, &leaf_hashes);
        let id = e.register(MerkleVoting, (BytesN::from_array(e, &root),));
        let c = MerkleVotingClient::new(e, &id);
        let mut voted = vec![false; n];
        let (mut pro, mut against) = (0i128, 0i128);
        let mut waited: u64 = 0;
        for (i, s) in steps.iter().enumerate() {
            match s {
                Step::Advance { n: adv } => {
                    w.advance(*adv);
                    st.ledgers += *adv as u64;
                    st.hit("clock.advance");
                    if voted.iter().any(|x| *x) {
                        waited += *adv as u64;
                        if waited > 600_000 {
                            st.hit("probe.voted_flag_queried_after_long_time");
                        }
                    }
                }
                Step::Vote { k, corrupt, approve } => {
                    let (voter, power) = cfg.leaves[*k];
                    let mut vd = VoteData { index: *k as u32, account: a(voter), voting_power: power as i128 };
                    let mut proof = proofs[*k].clone();
                    let mut eff = *corrupt;
                    match corrupt {
                        Corrupt::None => {}
                        Corrupt::Power => vd.voting_power += 1,
                        Corrupt::Account => vd.account = a((voter + 1) % 4),
                        Corrupt::Index(j) => {
                            if *j == *k { eff = Corrupt::None } else { vd.index = *j as u32 }
                        }
                        Corrupt::ProofFlip(p) => {
                            if proof.is_empty() { eff = Corrupt::None } else { let l = proof.len(); proof[*p % l][5] ^= 0x02 }
                        }
                        Corrupt::ProofTruncate => {
                            if proof.is_empty() { eff = Corrupt::None } else { proof.pop(); }
                        }
                        Corrupt::ProofExtend => proof.push([0xA5; 32]),
                        Corrupt::ProofOfOther(j) => {
                            if *j == *k || proofs[*j] == proofs[*k] { eff = Corrupt::None } else { proof = proofs[*j].clone() }
                        }
                    }
                    if eff != Corrupt::None {
                        st.hit("fault.corrupted_claim");
                    }
                    let pv: Vec<BytesN<32>> = Vec::from_iter(e, proof.iter().map(|p| BytesN::from_array(e, p)));
                    let before = w.storage_digest(&[&id]);
                    w.set_auth(&[]);
                    let got = c.try_vote(&vd, &pv, approve).is_ok();
                    let exp = eff == Corrupt::None && !voted[*k];
                    st.tx(if eff == Corrupt::None { "vote.honest" } else { "vote.corrupted" }, got);
                    if eff == Corrupt::None && voted[*k] {
                        st.hit("probe.repeated_vote_refused");
                    }
                    if got != exp {
                        let check = if got { if eff != Corrupt::None { "verify.rejects_corrupted" } else { "claim.once_forever" } } else { "verify.accepts_honest" };
                        return Err(violation(check, "vote", i, format!("{s:?}: real {got}, model {exp}; voted[{k}]={} leaves={n} proof_len={}", voted[*k], proof.len())));
                    }
                    if got {
                        voted[*k] = true;
                        if *approve { pro += power as i128 } else { against += power as i128 }
                    } else if w.storage_digest(&[&id]) != before {
                        return Err(violation("fail.no_trace", "vote", i, format!("state changed by refused {s:?}")));
                    }
                }
            }
            for x in 0..n as u32 + 2 {
                let want = (x as usize) < n && voted[x as usize];
                if c.has_voted(&x) != want {
                    return Err(violation("claim.once_forever", "has_voted", i, format!("has_voted({x}) = {}, model {want} after {s:?}", !want)));
                }
            }
            let res = c.get_vote_results();
            if res != (pro, against) {
                return Err(violation("claim.counts_exactly_once", "get_vote_results", i, format!("tally {res:?}, model ({pro}, {against}) after {s:?}")));
            }
            st.state(&(n.min(30), voted.iter().filter(|x| **x).count().min(30), std::mem::discriminant(s)));
        }
        Ok(())
    }
}
