//! C13: voting power equals delegated balances, now and at every past ledger (fungible votes flavour).

use crate::core::*;
use crate::world::{Base as W, Inv};
use serde::{Deserialize, Serialize};
#[allow(unused_imports)]
use soroban_sdk::{contract, contractimpl, Address, Env, IntoVal, MuxedAddress, String as SString};
use std::collections::BTreeMap;
use stellar_governance::votes::{self, Votes};
use stellar_tokens::fungible::{votes::FungibleVotes, FungibleToken};

mod fv_ex {
    #[path = "/repo/examples/fungible-votes/src/contract.rs"]
    pub mod c;
}

#[contract]
pub struct VTok;
#[contractimpl]
impl VTok {
    pub fn mint(e: &Env, to: Address, amount: i128) {
        FungibleVotes::mint(e, &to, amount);
    }
    pub fn burn(e: &Env, from: Address, amount: i128) {
        FungibleVotes::burn(e, &from, amount);
    }
    pub fn burn_from(e: &Env, spender: Address, from: Address, amount: i128) {
        FungibleVotes::burn_from(e, &spender, &from, amount);
    }
    pub fn voting_units(e: &Env, a: Address) -> u128 {
        votes::get_voting_units(e, &a)
    }
    pub fn num_checkpoints(e: &Env, a: Address) -> u32 {
        votes::num_checkpoints(e, &a)
    }
}
#[contractimpl(contracttrait)]
impl FungibleToken for VTok {
    type ContractType = FungibleVotes;
}
#[contractimpl(contracttrait)]
impl Votes for VTok {}

#[derive(Clone, Debug, Serialize, Deserialize)]
pub enum Step {
    Mint { to: usize, #[serde(with = "i128s")] amt: i128 },
    Burn { from: usize, #[serde(with = "i128s")] amt: i128 },
    Transfer { from: usize, to: usize, #[serde(with = "i128s")] amt: i128 },
    Delegate { who: usize, to: usize, signed: bool },
    Approve { owner: usize, spender: usize },
    TransferFrom { spender: usize, from: usize, to: usize, #[serde(with = "i128s")] amt: i128 },
    BurnFrom { spender: usize, from: usize, #[serde(with = "i128s")] amt: i128 },
    Advance { n: u32 },
}
#[derive(Clone, Debug, Serialize, Deserialize)]
pub struct Cfg {
    pub actors: usize,
    pub start_ledger: u32,
    /// run against examples/fungible-votes (from source; owner-only mint, no burn entry points)
    #[serde(default)]
    pub example: bool,
}

#[derive(Clone, Debug, Default)]
struct Model {
    bal: BTreeMap<usize, i128>,
    approved: std::collections::BTreeSet<(usize, usize)>,
    del: BTreeMap<usize, usize>,
    now: u32,
    example: bool,
    // timelines: value at end of ledger
    votes_tl: BTreeMap<usize, BTreeMap<u32, u128>>,
    supply_tl: BTreeMap<u32, u128>,
}
impl Model {
    fn b(&self, a: usize) -> i128 {
        *self.bal.get(&a).unwrap_or(&0)
    }
    fn votes(&self, a: usize) -> u128 {
        self.del.iter().filter(|(_, d)| **d == a).map(|(w, _)| self.b(*w) as u128).sum()
    }
    fn supply(&self) -> u128 {
        self.bal.values().map(|v| *v as u128).sum()
    }
    fn record(&mut self, n: usize) {
        for a in 0..n {
            let v = self.votes(a);
            self.votes_tl.entry(a).or_default().insert(self.now, v);
        }
        let s = self.supply();
        self.supply_tl.insert(self.now, s);
    }
    fn at(tl: &BTreeMap<u32, u128>, ledger: u32) -> u128 {
        tl.range(..=ledger).next_back().map(|(_, v)| *v).unwrap_or(0)
    }
    fn apply(&mut self, s: &Step) -> bool {
        match *s {
            Step::Advance { n } => {
                self.now += n;
                true
            }
            Step::Mint { to, amt } => {
                if amt < 0 || (self.supply() as i128).checked_add(amt).is_none() {
                    return false;
                }
                *self.bal.entry(to).or_insert(0) += amt;
                true
            }
            Step::Burn { from, amt } => {
                if self.example || amt < 0 || self.b(from) < amt {
                    return false;
                }
                *self.bal.entry(from).or_insert(0) -= amt;
                true
            }
            Step::Transfer { from, to, amt } => {
                if amt < 0 || self.b(from) < amt {
                    return false;
                }
                *self.bal.entry(from).or_insert(0) -= amt;
                *self.bal.entry(to).or_insert(0) += amt;
                true
            }
            Step::Approve { owner, spender } => {
                self.approved.insert((owner, spender));
                true
            }
            Step::TransferFrom { spender, from, to, amt } => {
                if (!self.approved.contains(&(from, spender)) && amt > 0) || amt < 0 || self.b(from) < amt {
                    return false;
                }
                *self.bal.entry(from).or_insert(0) -= amt;
                *self.bal.entry(to).or_insert(0) += amt;
                true
            }
            Step::BurnFrom { spender, from, amt } => {
                if self.example || (!self.approved.contains(&(from, spender)) && amt > 0) || amt < 0 || self.b(from) < amt {
                    return false;
                }
                *self.bal.entry(from).or_insert(0) -= amt;
                true
            }
            Step::Delegate { who, to, signed } => {
                if !signed || self.del.get(&who) == Some(&to) {
                    return false;
                }
                self.del.insert(who, to);
                true
            }
        }
    }
}

pub struct VotesCheck;

impl Check for VotesCheck {
    type Cfg = Cfg;
    type Step = Step;
    fn id(&self) -> &'static str {
        "votes"
    }
    fn runs(&self, tier: Tier) -> u64 {
        if tier == Tier::Quick {
            1000
        } else {
            15000
        }
    }
    fn components(&self) -> serde_json::Value {
        serde_json::json!({"real": ["examples/fungible-votes (from source; 30 % of the runs)", "stellar_governance::votes::*", "stellar_tokens::fungible::votes::FungibleVotes", "fungible Base"], "stub": ["Wallet"]})
    }
    fn clock_step(&self, n: u32) -> Option<Step> {
        Some(Step::Advance { n })
    }
    fn clock_budget(&self) -> u64 {
        1200000
    }
    fn probes(&self, _prop: &str) -> std::vec::Vec<&'static str> {
        vec!["probe.same_ledger_update", "probe.sweep_over_more_than_5_checkpoint_ledgers"]
    }
    fn dup_ok(&self, _s: &Step) -> bool {
        true
    }
    fn reorder_ok(&self) -> bool {
        true
    }
    fn generate(&self, rng: &mut Rng, tier: Tier) -> (Cfg, Vec<Step>) {
        let cfg = Cfg { actors: 3 + rng.below(3) as usize, start_ledger: 1 + rng.below(100_000) as u32, example: rng.chance(30) };
        let n = cfg.actors as u64;
        let nsteps = if tier == Tier::Quick { 20 + rng.below(40) } else { 20 + rng.below(100) } as usize;
        let mut m = Model { now: cfg.start_ledger, example: cfg.example, ..Default::default() };
        let same_ledger_bias = rng.range(20, 70);
        let mut steps = vec![];
        for _ in 0..nsteps {
            let holders: Vec<usize> = (0..cfg.actors).filter(|a| m.b(*a) > 0).collect();
            let s = match rng.below(100) {
                0..=17 => Step::Mint { to: rng.below(n) as usize, amt: if rng.chance(5) { rng.amount_bits() } else if rng.chance(5) { -1 } else { rng.below(1000) as i128 } },
                18..=27 => {
                    let from = if holders.is_empty() { rng.below(n) as usize } else { *rng.pick(&holders) };
                    let b = m.b(from);
                    Step::Burn { from, amt: match rng.below(5) { 0 => b, 1 => b + 1, 2 => 0, _ => if b > 0 { 1 + rng.below(b.min(1_000) as u64) as i128 } else { 1 } } }
                }
                28..=35 => {
                    let from = if holders.is_empty() { rng.below(n) as usize } else { *rng.pick(&holders) };
                    let spender = rng.below(n) as usize;
                    if !m.approved.contains(&(from, spender)) && rng.chance(70) { Step::Approve { owner: from, spender } } else {
                        let b = m.b(from);
                        let amt = match rng.below(4) { 0 => b, 1 => b + 1, _ => if b > 0 { 1 + rng.below(b.min(1_000) as u64) as i128 } else { 1 } };
                        if rng.chance(60) { Step::TransferFrom { spender, from, to: rng.below(n) as usize, amt } } else { Step::BurnFrom { spender, from, amt } }
                    }
                }
                36..=52 => {
                    let from = if holders.is_empty() { rng.below(n) as usize } else { *rng.pick(&holders) };
                    let to = if rng.chance(12) { from } else { rng.below(n) as usize };
                    let b = m.b(from);
                    Step::Transfer { from, to, amt: match rng.below(5) { 0 => b, 1 => b + 1, 2 => 0, _ => if b > 0 { 1 + rng.below(b.min(1_000) as u64) as i128 } else { 1 } } }
                }
                53..=74 => {
                    let who = rng.below(n) as usize;
                    let to = if rng.chance(20) { who } else { rng.below(n) as usize };
                    Step::Delegate { who, to, signed: !rng.chance(8) }
                }
                _ => Step::Advance { n: if rng.chance(same_ledger_bias) { rng.below(2) as u32 } else if rng.chance(10) && m.now < cfg.start_ledger + 1_000_000 { 1000 + rng.below(300_000) as u32 } else { 1 + rng.below(5) as u32 } },
            };
            m.apply(&s);
            steps.push(s);
        }
        (cfg, steps)
    }
    fn simplify(&self, s: &Step) -> Vec<Step> {
        match s {
            Step::Advance { n } if *n > 1 => vec![Step::Advance { n: 1 }, Step::Advance { n: n / 2 }],
            _ => vec![],
        }
    }
    fn execute(&self, cfg: &Cfg, steps: &[Step], st: &mut Stats) -> Result<(), Violation> {
        let w = W::new(cfg.actors, cfg.start_ledger, 16);
        let e = &w.e;
        let a = |i: usize| w.actors[i].clone();
        let id = if cfg.example { e.register(fv_ex::c::ExampleContract, (a(0),)) } else { e.register(VTok, ()) };
        // the token and votes entry points have the same names and signatures in both contracts
        let c = VTokClient::new(e, &id);
        let mut m = Model { now: cfg.start_ledger, example: cfg.example, ..Default::default() };
        let mut touched: Vec<u32> = vec![]; // ledgers in which something happened
        for (i, s) in steps.iter().enumerate() {
            let kind;
            let got = match s {
                Step::Advance { n } => {
                    // the values at the end of the current ledger are now final
                    m.record(cfg.actors);
                    w.advance(*n);
                    st.ledgers += *n as u64; st.hit("clock.advance"); if *n > 100_000 { st.hit("clock.jump"); }
                    kind = "advance";
                    true
                }
                Step::Mint { to, amt } => {
                    kind = "mint";
                    if cfg.example {
                        // #[only_owner]: the owner (actor 0) signs
                        w.set_auth(&[(0, Inv::new(&id, "mint", (a(*to), *amt).into_val(e)))]);
                    } else {
                        w.set_auth(&[]);
                    }
                    c.try_mint(&a(*to), amt).is_ok()
                }
                Step::Burn { from, amt } => {
                    kind = "burn";
                    w.set_auth(&[(*from, Inv::new(&id, "burn", (a(*from), *amt).into_val(e)))]);
                    c.try_burn(&a(*from), amt).is_ok()
                }
                Step::Transfer { from, to, amt } => {
                    kind = "transfer";
                    w.set_auth(&[(*from, Inv::new(&id, "transfer", (a(*from), a(*to), *amt).into_val(e)))]);
                    c.try_transfer(&a(*from), &a(*to), amt).is_ok()
                }
                Step::Approve { owner, spender } => {
                    kind = "approve";
                    let live = w.now() + 3_000_000;
                    w.set_auth(&[(*owner, Inv::new(&id, "approve", (a(*owner), a(*spender), i128::MAX, live).into_val(e)))]);
                    c.try_approve(&a(*owner), &a(*spender), &i128::MAX, &live).is_ok()
                }
                Step::TransferFrom { spender, from, to, amt } => {
                    kind = "transfer_from";
                    w.set_auth(&[(*spender, Inv::new(&id, "transfer_from", (a(*spender), a(*from), a(*to), *amt).into_val(e)))]);
                    c.try_transfer_from(&a(*spender), &a(*from), &a(*to), amt).is_ok()
                }
                Step::BurnFrom { spender, from, amt } => {
                    kind = "burn_from";
                    w.set_auth(&[(*spender, Inv::new(&id, "burn_from", (a(*spender), a(*from), *amt).into_val(e)))]);
                    c.try_burn_from(&a(*spender), &a(*from), amt).is_ok()
                }
                Step::Delegate { who, to, signed } => {
                    kind = "delegate";
                    if *signed {
                        w.set_auth(&[(*who, Inv::new(&id, "delegate", (a(*who), a(*to)).into_val(e)))]);
                    } else {
                        w.set_auth(&[]);
                        st.hit("fault.auth_missing");
                    }
                    c.try_delegate(&a(*who), &a(*to)).is_ok()
                }
            };
            let exp = m.apply(s);
            if !matches!(s, Step::Advance { .. }) {
                st.tx(kind, got);
                if got && touched.last() != Some(&m.now) {
                    touched.push(m.now);
                } else if got {
                    st.hit("probe.same_ledger_update");
                }
            }
            if got != exp {
                return Err(violation(if got { "refine.must_fail" } else { "live.must_succeed" }, kind, i, format!("expected {exp} got {got} at {s:?}")));
            }
            // current values
            let mut sum_units: u128 = 0;
            for x in 0..cfg.actors {
                let v = c.get_votes(&a(x));
                if v != m.votes(x) {
                    return Err(violation("votes.eq_sum_delegators", kind, i, format!("actor {x}: get_votes {v} model {}", m.votes(x))));
                }
                let u: u128 = e.as_contract(&id, || votes::get_voting_units(e, &a(x)));
                let b = c.balance(&a(x));
                if u != b as u128 || b != m.b(x) {
                    return Err(violation("units.eq_balance", kind, i, format!("actor {x}: units {u} balance {b} model {}", m.b(x))));
                }
                sum_units += u;
                let d = c.get_delegate(&a(x));
                let md = m.del.get(&x).map(|t| a(*t));
                if d != md {
                    return Err(violation("delegate.model_eq", kind, i, format!("actor {x}")));
                }
            }
            let ts = c.get_total_supply();
            if ts != sum_units || ts != m.supply() {
                return Err(violation("supply.eq_sum_units", kind, i, format!("get_total_supply {ts} sum units {sum_units} model {}", m.supply())));
            }
            // past values: every touched ledger and its neighbours, 0, now-1; future refused
            let now = w.now();
            let mut qs: Vec<u32> = vec![0, now.saturating_sub(1), cfg.start_ledger.saturating_sub(1), cfg.start_ledger];
            for t in touched.iter().rev().take(12) {
                qs.extend([t.saturating_sub(1), *t, t + 1]);
            }
            qs.sort();
            qs.dedup();
            for q in qs {
                if q >= now {
                    continue;
                }
                for x in 0..cfg.actors {
                    let r = c.try_get_votes_at_checkpoint(&a(x), &q);
                    let want = m.votes_tl.get(&x).map(|tl| Model::at(tl, q)).unwrap_or(0);
                    match r {
                        Ok(Ok(v)) if v == want => {}
                        other => return Err(violation("past.eq_timeline", "votes", i, format!("actor {x} ledger {q} now {now}: got {other:?} want {want}"))),
                    }
                }
                match c.try_get_total_supply_at_checkpoint(&q) {
                    Ok(Ok(v)) if v == Model::at(&m.supply_tl, q) => {}
                    other => return Err(violation("past.eq_timeline", "supply", i, format!("ledger {q} now {now}: got {other:?} want {}", Model::at(&m.supply_tl, q)))),
                }
                st.hit("query.past");
            }
            for q in [now, now + 1] {
                if c.try_get_votes_at_checkpoint(&a(0), &q).is_ok() || c.try_get_total_supply_at_checkpoint(&q).is_ok() {
                    return Err(violation("future.refused", "query", i, format!("ledger {q} now {now} answered")));
                }
            }
            st.state(&(m.del.clone(), m.bal.values().map(|v| (*v > 0) as u8).collect::<Vec<_>>()));
        }
        // ---- end of run: the whole past, every touched ledger and its neighbours, for every account and the total
        // (a later operation must never change an answer about the past; lookups must be right at every checkpoint
        // position, not only the recent ones)
        let now = w.now();
        let mut qs: Vec<u32> = vec![0, cfg.start_ledger];
        for t in touched.iter() {
            qs.extend([t.saturating_sub(1), *t, t + 1]);
        }
        qs.sort();
        qs.dedup();
        if touched.len() > 5 {
            st.hit("probe.sweep_over_more_than_5_checkpoint_ledgers");
        }
        for q in qs {
            if q >= now {
                continue;
            }
            for x in 0..cfg.actors {
                let r = c.try_get_votes_at_checkpoint(&a(x), &q);
                let want = m.votes_tl.get(&x).map(|tl| Model::at(tl, q)).unwrap_or(0);
                match r {
                    Ok(Ok(v)) if v == want => {}
                    other => return Err(violation("past.eq_timeline", "votes_sweep", steps.len(), format!("actor {x} ledger {q} now {now}: got {other:?} want {want}"))),
                }
            }
            match c.try_get_total_supply_at_checkpoint(&q) {
                Ok(Ok(v)) if v == Model::at(&m.supply_tl, q) => {}
                other => return Err(violation("past.eq_timeline", "supply_sweep", steps.len(), format!("ledger {q} now {now}: got {other:?} want {}", Model::at(&m.supply_tl, q)))),
            }
        }
        Ok(())
    }
}
