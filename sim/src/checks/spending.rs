//! C14 (spending-limit part): rolling-window invariant, can_enforce/enforce agreement, account-only enforce.

use crate::core::*;
use crate::world::Base as W;
use serde::{Deserialize, Serialize};
use soroban_sdk::{
    auth::{Context, ContractContext, ContractExecutable, CreateContractHostFnContext},
    contract, contractimpl, vec as svec, Address, BytesN, Env, IntoVal, String as SString, Symbol, Val, Vec,
};
use stellar_accounts::{
    policies::spending_limit::SpendingLimitAccountParams,
    smart_account::{ContextRule, ContextRuleType, Signer},
};

mod ex {
    #[path = "/repo/examples/multisig-smart-account/spending-limit-policy/src/contract.rs"]
    pub mod c;
}
use ex::c::{SpendingLimitPolicyContract, SpendingLimitPolicyContractClient};

/// Stand-in for the smart account: forwards a call, so that `smart_account.require_auth()` inside the
/// policy is satisfied the way the host satisfies it for the real account (direct invoker).
#[contract]
pub struct Acct;
#[contractimpl]
impl Acct {
    pub fn call(e: &Env, target: Address, f: Symbol, args: Vec<Val>) -> Val {
        e.invoke_contract::<Val>(&target, &f, args)
    }
}

#[derive(Clone, Copy, Debug, Serialize, Deserialize, PartialEq)]
pub enum Ctx {
    Transfer,
    OtherFn,
    ShortArgs,
    BadType,
    Create,
}
#[derive(Clone, Debug, Serialize, Deserialize)]
pub enum Step {
    Install { #[serde(with = "i128s")] limit: i128, period: u32 },
    SetLimit { #[serde(with = "i128s")] limit: i128 },
    Uninstall,
    Spend { #[serde(with = "i128s")] amount: i128, ctx: Ctx, signers: u32, by_account: bool },
    /// `count` consecutive honest transfers of `amount` in the current ledger (fills the bounded history)
    Burst { count: u32, #[serde(with = "i128s")] amount: i128 },
    Advance { n: u32 },
}
#[derive(Clone, Debug, Serialize, Deserialize)]
pub struct Cfg {
    pub start_ledger: u32,
}

#[derive(Clone, Debug, Default)]
struct Model {
    installed: Option<(i128, u32)>,
    hist: std::vec::Vec<(u32, i128)>, // accepted since install (ledger, amount)
    now: u32,
}
impl Model {
    fn live(&self) -> std::vec::Vec<(u32, i128)> {
        let p = self.installed.map(|x| x.1).unwrap_or(0);
        let cutoff = self.now.saturating_sub(p);
        self.hist.iter().filter(|(l, _)| *l > cutoff).cloned().collect()
    }
    fn would_accept(&self, amount: i128, ctx: Ctx, signers: u32) -> bool {
        let Some((limit, _)) = self.installed else { return false };
        if signers == 0 || ctx != Ctx::Transfer {
            return false;
        }
        let live = self.live();
        if live.len() >= 1000 {
            return false;
        }
        let mut sum = num_bigint::BigInt::from(amount);
        for (_, a) in &live {
            sum += *a;
        }
        sum <= num_bigint::BigInt::from(limit)
    }
}

pub struct Spending;

impl Check for Spending {
    type Cfg = Cfg;
    type Step = Step;
    fn id(&self) -> &'static str {
        "spending"
    }
    fn runs(&self, tier: Tier) -> u64 {
        if tier == Tier::Quick {
            8000
        } else {
            200000
        }
    }
    fn components(&self) -> serde_json::Value {
        serde_json::json!({"real": ["examples/multisig-smart-account/spending-limit-policy (from source)", "stellar_accounts::policies::spending_limit::*"], "stub": ["Acct forwarder standing in for the smart account", "Wallet"]})
    }
    fn clock_step(&self, n: u32) -> Option<Step> {
        Some(Step::Advance { n })
    }
    fn probes(&self, _prop: &str) -> std::vec::Vec<&'static str> {
        vec!["probe.history_near_bound", "probe.history_capacity_refusal", "probe.malformed_context"]
    }
    fn dup_ok(&self, _s: &Step) -> bool {
        true
    }
    fn reorder_ok(&self) -> bool {
        true
    }
    fn generate(&self, rng: &mut Rng, tier: Tier) -> (Cfg, std::vec::Vec<Step>) {
        let cfg = Cfg { start_ledger: 1 + rng.below(200) as u32 + if rng.chance(30) { rng.below(1_000_000) as u32 } else { 0 } };
        let nsteps = if tier == Tier::Quick { 25 + rng.below(50) } else { 25 + rng.below(120) } as usize;
        let mut m = Model { now: cfg.start_ledger, ..Default::default() };
        let mut steps = vec![];
        // every period: mostly short (windows that close during a run), sometimes so long that `entry + period` leaves u32
        let period = if rng.chance(8) { *rng.pick(&[u32::MAX, u32::MAX - 1, 4_000_000_000, 2_147_483_648]) } else { 1 + if rng.chance(50) { rng.below(12) } else { rng.below(400) } as u32 };
        let limit: i128 = match rng.below(4) { 0 => 1 + rng.below(50) as i128, 1 => i128::MAX, _ => 100 + rng.below(10_000) as i128 };
        // capacity scenario (rare, expensive): fill the 1 000-entry history inside one window, let entries expire, go on
        let capacity_run = rng.below(if tier == Tier::Quick { 400 } else { 250 }) == 0;
        let (limit, period) = if capacity_run { (i128::MAX, 200 + rng.below(2000) as u32) } else { (limit, period) };
        for k in 0..nsteps {
            let s = if k == 0 && (capacity_run || rng.chance(85)) {
                Step::Install { limit, period }
            } else if capacity_run && k == 1 {
                Step::Burst { count: 990 + rng.below(15) as u32, amount: 1 + rng.below(3) as i128 }
            } else if capacity_run && k == 2 {
                Step::Advance { n: rng.below(3) as u32 }
            } else if capacity_run && k == 3 {
                Step::Burst { count: 5 + rng.below(12) as u32, amount: 1 }
            } else if capacity_run && k == 4 {
                Step::Advance { n: period - rng.below(3) as u32 }
            } else {
                match rng.below(100) {
                    0..=3 => Step::Install { limit: match rng.below(4) { 0 => 0, 1 => -5, _ => 1 + rng.below(10_000) as i128 }, period: if rng.chance(15) { 0 } else { 1 + rng.below(50) as u32 } },
                    4..=9 => Step::SetLimit { limit: match rng.below(6) { 0 => 0, 1 => -1, _ => 1 + rng.below(10_000) as i128 } },
                    10..=11 => Step::Uninstall,
                    12..=64 => {
                        let (lim, _) = m.installed.unwrap_or((100, 1));
                        let spent: i128 = m.live().iter().map(|x| x.1).fold(0i128, |a, b| a.saturating_add(b));
                        let room = lim.saturating_sub(spent);
                        // transfer amounts are never negative (a token refuses them; the property speaks of transfers)
                        let room = room.max(0);
                        let amount = match rng.below(8) { 0 => 0, 1 => room, 2 => room.saturating_add(1), 3 => (room - 1).max(0), 4 => i128::MAX, _ => if room > 0 { rng.below((room.min(1_000_000) as u64).max(1)) as i128 / (1 + rng.below(4) as i128) } else { rng.below(5) as i128 } };
                        let ctx = match rng.below(20) { 0 => Ctx::OtherFn, 1 => Ctx::ShortArgs, 2 => Ctx::BadType, 3 => Ctx::Create, _ => Ctx::Transfer };
                        Step::Spend { amount, ctx, signers: if rng.chance(6) { 0 } else { 1 }, by_account: !rng.chance(8) }
                    }
                    _ => {
                        // land on window edges of the oldest live entry: C-P == l  (evicted) / C-P == l-1 (kept)
                        let p = m.installed.map(|x| x.1).unwrap_or(1);
                        let n = match (m.live().first().cloned(), rng.below(10)) {
                            (Some((l, _)), 0..=5) if (l as u64 + p as u64) < 6_000_000 => (l + p + rng.below(2) as u32).saturating_sub(1).saturating_sub(m.now).max(if rng.chance(50) { 0 } else { 1 }),
                            (_, 6) => 0,
                            (_, 7) => 500 + rng.below(5000) as u32,
                            _ => 1 + rng.below(4) as u32,
                        };
                        Step::Advance { n }
                    }
                }
            };
            // advance the generator's model
            match &s {
                Step::Advance { n } => m.now += n,
                Step::Install { limit, period } => {
                    if m.installed.is_none() && *limit > 0 && *period > 0 {
                        m.installed = Some((*limit, *period));
                        m.hist.clear();
                    }
                }
                Step::SetLimit { limit } => {
                    if let (Some(i), true) = (m.installed.as_mut(), *limit > 0) {
                        i.0 = *limit;
                    }
                }
                Step::Uninstall => {
                    m.installed = None;
                    m.hist.clear();
                }
                Step::Spend { amount, ctx, signers, by_account } => {
                    if *by_account && m.would_accept(*amount, *ctx, *signers) {
                        let now = m.now;
                        m.hist.push((now, *amount));
                    }
                }
                Step::Burst { count, amount } => {
                    for _ in 0..*count {
                        if m.would_accept(*amount, Ctx::Transfer, 1) {
                            let now = m.now;
                            m.hist.push((now, *amount));
                        }
                    }
                }
            }
            steps.push(s);
        }
        (cfg, steps)
    }
    fn simplify(&self, s: &Step) -> std::vec::Vec<Step> {
        match s {
            Step::Advance { n } if *n > 1 => vec![Step::Advance { n: 1 }, Step::Advance { n: n / 2 }, Step::Advance { n: n - 1 }],
            _ => vec![],
        }
    }
    fn execute(&self, cfg: &Cfg, steps: &[Step], st: &mut Stats) -> Result<(), Violation> {
        let w = W::new(2, cfg.start_ledger, 16);
        let e = &w.e;
        let pol = e.register(SpendingLimitPolicyContract, ());
        let acct = e.register(Acct, ());
        let ac = AcctClient::new(e, &acct);
        let pc = SpendingLimitPolicyContractClient::new(e, &pol);
        let token = w.actors[0].clone();
        let signer = Signer::Delegated(w.actors[1].clone());
        let rule = ContextRule {
            id: 3,
            context_type: ContextRuleType::Default,
            name: SString::from_str(e, "r"),
            signers: svec![e, signer.clone()],
            policies: svec![e, pol.clone()],
            valid_until: None,
        };
        let mk_ctx = |amount: i128, k: Ctx| -> Context {
            let to = w.actors[1].clone();
            match k {
                Ctx::Transfer => Context::Contract(ContractContext { contract: token.clone(), fn_name: Symbol::new(e, "transfer"), args: (acct.clone(), to, amount).into_val(e) }),
                Ctx::OtherFn => Context::Contract(ContractContext { contract: token.clone(), fn_name: Symbol::new(e, "approve"), args: (acct.clone(), to, amount).into_val(e) }),
                Ctx::ShortArgs => Context::Contract(ContractContext { contract: token.clone(), fn_name: Symbol::new(e, "transfer"), args: (acct.clone(), to).into_val(e) }),
                Ctx::BadType => Context::Contract(ContractContext { contract: token.clone(), fn_name: Symbol::new(e, "transfer"), args: (acct.clone(), to, 5u32).into_val(e) }),
                Ctx::Create => Context::CreateContractHostFn(CreateContractHostFnContext { executable: ContractExecutable::Wasm(BytesN::from_array(e, &[1u8; 32])), salt: BytesN::from_array(e, &[2u8; 32]) }),
            }
        };
        let mut m = Model { now: cfg.start_ledger, ..Default::default() };
        for (i, s) in steps.iter().enumerate() {
            w.set_auth(&[]);
            match s {
                Step::Advance { n } => {
                    w.advance(*n);
                    m.now += n;
                    st.ledgers += *n as u64; st.hit("clock.advance"); if *n > 100_000 { st.hit("clock.jump"); }
                }
                Step::Install { limit, period } => {
                    let params = SpendingLimitAccountParams { spending_limit: *limit, period_ledgers: *period };
                    let got = ac.try_call(&pol, &Symbol::new(e, "install"), &(params, rule.clone(), acct.clone()).into_val(e)).is_ok();
                    let exp = m.installed.is_none() && *limit > 0 && *period > 0;
                    if got != exp {
                        return Err(violation("config.invalid_refused", "install", i, format!("install({limit},{period}) got {got} expected {exp}")));
                    }
                    if got {
                        m.installed = Some((*limit, *period));
                        m.hist.clear();
                    }
                    st.tx("install", got);
                }
                Step::SetLimit { limit } => {
                    let got = ac.try_call(&pol, &Symbol::new(e, "set_spending_limit"), &(*limit, rule.clone(), acct.clone()).into_val(e)).is_ok();
                    let exp = m.installed.is_some() && *limit > 0;
                    if got != exp {
                        return Err(violation("config.invalid_refused", "set_limit", i, format!("set_limit({limit}) got {got} expected {exp}")));
                    }
                    if got {
                        m.installed.as_mut().unwrap().0 = *limit;
                    }
                    st.tx("set_limit", got);
                }
                Step::Uninstall => {
                    let got = ac.try_call(&pol, &Symbol::new(e, "uninstall"), &(rule.clone(), acct.clone()).into_val(e)).is_ok();
                    if got {
                        m.installed = None;
                        m.hist.clear();
                    }
                }
                Step::Burst { count, amount } => {
                    let c = mk_ctx(*amount, Ctx::Transfer);
                    let sg: Vec<Signer> = svec![e, signer.clone()];
                    for j in 0..*count {
                        let can = matches!(pc.try_can_enforce(&c, &sg, &rule, &acct), Ok(Ok(true)));
                        let got = ac.try_call(&pol, &Symbol::new(e, "enforce"), &(c.clone(), sg.clone(), rule.clone(), acct.clone()).into_val(e)).is_ok();
                        let would = m.would_accept(*amount, Ctx::Transfer, 1);
                        st.tx("enforce", got);
                        if can != got {
                            return Err(violation("agree.can_enforce_eq_enforce", "enforce", i, format!("can_enforce={can} enforce ok={got} at transfer {j} of {s:?} now={} live entries {}", w.now(), m.live().len())));
                        }
                        if can != would {
                            return Err(violation("spend.accept_iff_fits", "can_enforce", i, format!("can_enforce={can} model={would} at transfer {j} of {s:?} now={} live entries {} installed={:?}", w.now(), m.live().len(), m.installed)));
                        }
                        if got {
                            m.hist.push((m.now, *amount));
                        }
                        if m.live().len() >= 990 {
                            st.hit("probe.history_near_bound");
                        }
                        if !would && m.live().len() >= 1000 {
                            st.hit("probe.history_capacity_refusal");
                        }
                    }
                }
                Step::Spend { amount, ctx, signers, by_account } => {
                    let c = mk_ctx(*amount, *ctx);
                    let sg: Vec<Signer> = if *signers == 0 { svec![e] } else { svec![e, signer.clone()] };
                    // read-only answer first, in the same state
                    let can = matches!(pc.try_can_enforce(&c, &sg, &rule, &acct), Ok(Ok(true)));
                    let before = w.storage_digest(&[&pol]);
                    let got = if *by_account {
                        ac.try_call(&pol, &Symbol::new(e, "enforce"), &(c.clone(), sg.clone(), rule.clone(), acct.clone()).into_val(e)).is_ok()
                    } else {
                        st.hit("fault.enforce_by_stranger");
                        pc.try_enforce(&c, &sg, &rule, &acct).is_ok()
                    };
                    let would = m.would_accept(*amount, *ctx, *signers);
                    st.tx(if *by_account { "enforce" } else { "enforce_by_stranger" }, got);
                    if !*by_account {
                        if got {
                            return Err(violation("enforce.needs_account", "enforce", i, format!("enforce by a stranger succeeded: {s:?}")));
                        }
                    } else if can != got {
                        return Err(violation("agree.can_enforce_eq_enforce", "enforce", i, format!("can_enforce={can} enforce ok={got} at {s:?} now={} model={m:?}", w.now())));
                    }
                    // a negative "amount" is not a transfer: what the policy answers for it is outside the property;
                    // only agreement, authorization and no-trace are checked and the model adopts the real outcome
                    if *amount >= 0 && can != would {
                        return Err(violation("spend.accept_iff_fits", "can_enforce", i, format!("can_enforce={can} model={would} at {s:?} now={} live={:?} installed={:?}", w.now(), m.live(), m.installed)));
                    }
                    if got {
                        m.hist.push((m.now, *amount));
                        // window invariant from the history of accepted transfers only
                        let (limit, p) = m.installed.unwrap();
                        let lo = m.now.saturating_sub(p);
                        let mut sum = num_bigint::BigInt::from(0);
                        for (l, a) in &m.hist {
                            if *l > lo && *l <= m.now {
                                sum += *a;
                            }
                        }
                        if sum > num_bigint::BigInt::from(limit) {
                            return Err(violation("window.sum_le_limit", "enforce", i, format!("window ({lo},{}] sums to {sum} > limit {limit}", m.now)));
                        }
                        if m.live().len() >= 990 {
                            st.hit("probe.history_near_bound");
                        }
                    } else if w.storage_digest(&[&pol]) != before {
                        return Err(violation("fail.no_trace", "enforce", i, format!("state changed by rejected {s:?}")));
                    }
                    if *ctx != Ctx::Transfer {
                        st.hit("probe.malformed_context");
                    }
                }
            }
            // stored policy data equals what the model implies: limit, period, a history that is a suffix of the accepted
            // transfers containing every entry still inside the window, and a cached total equal to the history's sum
            {
                let d = pc.try_get_spending_limit_data(&rule.id, &acct);
                match (&d, m.installed) {
                    (Err(_), None) => {}
                    (Ok(Ok(d)), Some((limit, period))) => {
                        let hist: std::vec::Vec<(u32, i128)> = d.spending_history.iter().map(|x| (x.ledger_sequence, x.amount)).collect();
                        let sum = hist.iter().fold(num_bigint::BigInt::from(0), |a, b| a + b.1);
                        let is_suffix = hist.len() <= m.hist.len() && m.hist[m.hist.len() - hist.len()..] == hist[..];
                        let live = m.live();
                        if d.spending_limit != limit || d.period_ledgers != period || !is_suffix || hist.len() < live.len() || sum != num_bigint::BigInt::from(d.cached_total_spent) {
                            return Err(violation("window.stored_state_eq_model", "get_spending_limit_data", i, format!("stored limit {} period {} history {hist:?} cached {}; model {:?}, accepted {:?}, still in window {live:?} after {s:?}", d.spending_limit, d.period_ledgers, d.cached_total_spent, m.installed, m.hist)));
                        }
                    }
                    _ => return Err(violation("window.stored_state_eq_model", "get_spending_limit_data", i, format!("getter {:?}, model installed {:?} after {s:?}", d.as_ref().map(|x| x.is_ok()), m.installed))),
                }
            }
            let room_class = m.installed.map(|(l, _)| { let spent: i128 = m.live().iter().map(|x| x.1).fold(0i128, |a, b| a.saturating_add(b)); (l.saturating_sub(spent)).signum() as i8 });
            st.state(&(m.installed.is_some(), m.live().len().min(6), room_class, m.hist.len().min(4) > m.live().len().min(4), std::mem::discriminant(s)));
        }
        Ok(())
    }
}
