//! C05: vault share accounting rounds in the vault's favour (examples/fungible-vault from source).

use crate::core::*;
use crate::world::{Base as W, Inv};
use num_bigint::BigInt;
use serde::{Deserialize, Serialize};
#[allow(unused_imports)]
use soroban_sdk::{contract, contractimpl, Address, Env, IntoVal, MuxedAddress, String as SString};
use std::collections::BTreeMap;
use stellar_tokens::fungible::{Base, FungibleToken};

mod ex {
    #[path = "/repo/examples/fungible-vault/src/contract.rs"]
    pub mod c;
}
use ex::c::{ExampleContract as Vault, ExampleContractClient as VaultClient};

#[contract]
pub struct Asset;
#[contractimpl]
impl Asset {
    pub fn __constructor(e: &Env) {
        Base::set_metadata(e, 6, SString::from_str(e, "asset"), SString::from_str(e, "AST"));
    }
    pub fn mint(e: &Env, to: Address, amount: i128) {
        Base::mint(e, &to, amount);
    }
    pub fn set_trap(e: &Env, mode: u32) {
        e.storage().instance().set(&soroban_sdk::symbol_short!("trap"), &mode);
    }
}
#[contractimpl(contracttrait)]
impl FungibleToken for Asset {
    type ContractType = Base;
    // cooperative fault point: the asset token may trap before or after it moved the funds
    fn transfer(e: &Env, from: Address, to: MuxedAddress, amount: i128) {
        let mode: u32 = e.storage().instance().get(&soroban_sdk::symbol_short!("trap")).unwrap_or(0);
        if mode == 1 {
            panic!("asset trap before transfer");
        }
        Base::transfer(e, &from, &to, amount);
        if mode == 2 {
            panic!("asset trap after transfer");
        }
    }
    fn transfer_from(e: &Env, spender: Address, from: Address, to: Address, amount: i128) {
        let mode: u32 = e.storage().instance().get(&soroban_sdk::symbol_short!("trap")).unwrap_or(0);
        if mode == 1 {
            panic!("asset trap before transfer_from");
        }
        Base::transfer_from(e, &spender, &from, &to, amount);
        if mode == 2 {
            panic!("asset trap after transfer_from");
        }
    }
}
#[contractimpl]
impl AssetCtl {
    pub fn noop() {}
}
#[contract]
pub struct AssetCtl;

#[derive(Clone, Debug, Serialize, Deserialize)]
pub enum Step {
    Fund { to: usize, #[serde(with = "i128s")] amt: i128 },
    Donate { from: usize, #[serde(with = "i128s")] amt: i128 },
    /// `live` = lifetime of the allowance in ledgers from the delivery ledger
    ApproveAsset { owner: usize, spender: usize, #[serde(with = "i128s")] amt: i128, live: u32 },
    ApproveShares { owner: usize, spender: usize, #[serde(with = "i128s")] amt: i128, live: u32 },
    /// `signer` = who signs the root invocation (honest: the operator); None = nobody
    Deposit { #[serde(with = "i128s")] assets: i128, receiver: usize, from: usize, operator: usize, signer: Option<usize> },
    Mint { #[serde(with = "i128s")] shares: i128, receiver: usize, from: usize, operator: usize, signer: Option<usize> },
    Withdraw { #[serde(with = "i128s")] assets: i128, receiver: usize, owner: usize, operator: usize, signer: Option<usize> },
    Redeem { #[serde(with = "i128s")] shares: i128, receiver: usize, owner: usize, operator: usize, signer: Option<usize> },
    TransferShares { from: usize, to: usize, #[serde(with = "i128s")] amt: i128, signer: Option<usize> },
    /// collaborator fault script: 0 = asset token behaves, 1 = traps before moving funds, 2 = traps after
    AssetTrap { mode: u32 },
    Advance { n: u32 },
}
#[derive(Clone, Debug, Serialize, Deserialize)]
pub struct Cfg {
    pub actors: usize,
    pub offset: u32,
    pub start_ledger: u32,
}

fn big(x: i128) -> BigInt {
    BigInt::from(x)
}
fn fits(x: &BigInt) -> Option<i128> {
    use std::convert::TryFrom;
    i128::try_from(x.clone()).ok()
}
fn floor_div(n: &BigInt, d: &BigInt) -> BigInt {
    use num_bigint::Sign;
    let (q, r) = (n / d, n % d);
    if r.sign() != Sign::NoSign && (r.sign() != d.sign()) {
        q - 1
    } else {
        q
    }
}
fn ceil_div(n: &BigInt, d: &BigInt) -> BigInt {
    -floor_div(&-n.clone(), d)
}

const VAULT: usize = usize::MAX; // model key for the vault's own asset balance

#[derive(Clone, Debug, Default)]
struct Model {
    asset: BTreeMap<usize, i128>,
    shares: BTreeMap<usize, i128>,
    a_allow: BTreeMap<(usize, usize), (i128, u32)>,
    s_allow: BTreeMap<(usize, usize), (i128, u32)>,
    supply: i128,
    asset_supply: i128,
    off: u32,
    now: u32,
    trap: u32,
}
#[derive(Debug, PartialEq)]
enum Exp {
    Ok { assets: i128, shares: i128 },
    Fail,
    Unspecified, // huge operands: only if-success clauses
}
impl Model {
    fn ab(&self, k: usize) -> i128 {
        *self.asset.get(&k).unwrap_or(&0)
    }
    fn sb(&self, k: usize) -> i128 {
        *self.shares.get(&k).unwrap_or(&0)
    }
    fn total_assets(&self) -> i128 {
        self.ab(VAULT)
    }
    fn pow(&self) -> BigInt {
        BigInt::from(10u32).pow(self.off)
    }
    fn to_shares(&self, x: i128, ceil: bool) -> BigInt {
        let n = big(x) * (big(self.supply) + self.pow());
        let d = big(self.total_assets()) + 1;
        if ceil { ceil_div(&n, &d) } else { floor_div(&n, &d) }
    }
    fn to_assets(&self, x: i128, ceil: bool) -> BigInt {
        let n = big(x) * (big(self.total_assets()) + 1);
        let d = big(self.supply) + self.pow();
        if ceil { ceil_div(&n, &d) } else { floor_div(&n, &d) }
    }
    /// the two checked additions every conversion performs
    fn conv_ok(&self) -> bool {
        fits(&(big(self.supply) + self.pow())).is_some() && fits(&(big(self.total_assets()) + 1)).is_some()
    }
    fn huge(&self, x: i128) -> bool {
        let lim: i128 = 1 << 100;
        x >= lim || self.supply >= lim || self.total_assets() >= lim
    }
    fn aal(&self, o: usize, s: usize) -> i128 {
        match self.a_allow.get(&(o, s)) {
            Some((a, l)) if *l >= self.now => *a,
            _ => 0,
        }
    }
    fn sal(&self, o: usize, s: usize) -> i128 {
        match self.s_allow.get(&(o, s)) {
            Some((a, l)) if *l >= self.now => *a,
            _ => 0,
        }
    }
    fn pull_assets(&mut self, from: usize, operator: usize, assets: i128) -> bool {
        if self.trap != 0 {
            return false;
        }
        if self.ab(from) < assets {
            return false;
        }
        if operator != from {
            let al = self.aal(from, operator);
            if al < assets {
                return false;
            }
            if assets > 0 {
                self.a_allow.get_mut(&(from, operator)).unwrap().0 = al - assets;
            }
        }
        *self.asset.entry(from).or_insert(0) -= assets;
        *self.asset.entry(VAULT).or_insert(0) += assets;
        true
    }
    fn enter(&mut self, assets: i128, shares: i128, receiver: usize, from: usize, operator: usize) -> Exp {
        let snap = self.clone();
        if !self.pull_assets(from, operator, assets) || self.supply.checked_add(shares).is_none() {
            *self = snap;
            return Exp::Fail;
        }
        self.supply += shares;
        *self.shares.entry(receiver).or_insert(0) += shares;
        Exp::Ok { assets, shares }
    }
    fn exit(&mut self, assets: i128, shares: i128, receiver: usize, owner: usize, operator: usize) -> Exp {
        let snap = self.clone();
        if self.trap != 0 {
            return Exp::Fail;
        }
        if operator != owner {
            let al = self.sal(owner, operator);
            if al < shares {
                return Exp::Fail;
            }
            if shares > 0 {
                self.s_allow.get_mut(&(owner, operator)).unwrap().0 = al - shares;
            }
        }
        if self.sb(owner) < shares || self.total_assets() < assets {
            *self = snap;
            return Exp::Fail;
        }
        *self.shares.entry(owner).or_insert(0) -= shares;
        self.supply -= shares;
        *self.asset.entry(VAULT).or_insert(0) -= assets;
        *self.asset.entry(receiver).or_insert(0) += assets;
        Exp::Ok { assets, shares }
    }
    fn apply(&mut self, s: &Step) -> Exp {
        match *s {
            Step::Fund { to, amt } => {
                if amt < 0 || self.asset_supply.checked_add(amt).is_none() {
                    return Exp::Fail;
                }
                self.asset_supply += amt;
                *self.asset.entry(to).or_insert(0) += amt;
                Exp::Ok { assets: amt, shares: 0 }
            }
            Step::Donate { from, amt } => {
                if amt < 0 || self.ab(from) < amt || self.trap != 0 {
                    return Exp::Fail;
                }
                *self.asset.entry(from).or_insert(0) -= amt;
                *self.asset.entry(VAULT).or_insert(0) += amt;
                Exp::Ok { assets: amt, shares: 0 }
            }
            Step::ApproveAsset { owner, spender, amt, live } => {
                if amt < 0 {
                    return Exp::Fail;
                }
                self.a_allow.insert((owner, spender), (amt, self.now + live));
                Exp::Ok { assets: 0, shares: 0 }
            }
            Step::ApproveShares { owner, spender, amt, live } => {
                if amt < 0 {
                    return Exp::Fail;
                }
                self.s_allow.insert((owner, spender), (amt, self.now + live));
                Exp::Ok { assets: 0, shares: 0 }
            }
            Step::AssetTrap { mode } => {
                self.trap = mode;
                Exp::Ok { assets: 0, shares: 0 }
            }
            Step::Advance { n } => {
                self.now += n;
                Exp::Ok { assets: 0, shares: 0 }
            }
            Step::TransferShares { from, to, amt, signer } => {
                if signer != Some(from) || amt < 0 || self.sb(from) < amt {
                    return Exp::Fail;
                }
                *self.shares.entry(from).or_insert(0) -= amt;
                *self.shares.entry(to).or_insert(0) += amt;
                Exp::Ok { assets: 0, shares: amt }
            }
            Step::Deposit { operator, signer, .. } | Step::Mint { operator, signer, .. } | Step::Withdraw { operator, signer, .. } | Step::Redeem { operator, signer, .. } if signer != Some(operator) => Exp::Fail,
            Step::Deposit { assets, receiver, from, operator, .. } => {
                if assets < 0 {
                    return Exp::Fail;
                }
                let h = self.huge(assets);
                if assets > 0 && !self.conv_ok() {
                    return Exp::Fail;
                }
                match fits(&self.to_shares(assets, false)) {
                    None => Exp::Fail,
                    Some(sh) => {
                        let r = self.enter(assets, sh, receiver, from, operator);
                        if h && r == Exp::Fail { Exp::Unspecified } else { r }
                    }
                }
            }
            Step::Mint { shares, receiver, from, operator, .. } => {
                if shares < 0 {
                    return Exp::Fail;
                }
                let h = self.huge(shares);
                if shares > 0 && !self.conv_ok() {
                    return Exp::Fail;
                }
                match fits(&self.to_assets(shares, true)) {
                    None => Exp::Fail,
                    Some(a) => {
                        let r = self.enter(a, shares, receiver, from, operator);
                        if h && r == Exp::Fail { Exp::Unspecified } else { r }
                    }
                }
            }
            Step::Withdraw { assets, receiver, owner, operator, .. } => {
                if assets < 0 {
                    return Exp::Fail;
                }
                let maxw = self.to_assets(self.sb(owner), false);
                if (self.sb(owner) > 0 || assets > 0) && !self.conv_ok() {
                    return Exp::Fail;
                }
                if fits(&maxw).is_none() || big(assets) > maxw {
                    return Exp::Fail;
                }
                match fits(&self.to_shares(assets, true)) {
                    None => Exp::Fail,
                    Some(sh) => self.exit(assets, sh, receiver, owner, operator),
                }
            }
            Step::Redeem { shares, receiver, owner, operator, .. } => {
                if shares < 0 || shares > self.sb(owner) || (shares > 0 && !self.conv_ok()) {
                    return Exp::Fail;
                }
                match fits(&self.to_assets(shares, false)) {
                    None => Exp::Fail,
                    Some(a) => self.exit(a, shares, receiver, owner, operator),
                }
            }
        }
    }
}

pub struct VaultCheck;

impl Check for VaultCheck {
    type Cfg = Cfg;
    type Step = Step;
    fn id(&self) -> &'static str {
        "vault"
    }
    fn runs(&self, tier: Tier) -> u64 {
        if tier == Tier::Quick {
            2000
        } else {
            50000
        }
    }
    fn components(&self) -> serde_json::Value {
        serde_json::json!({"real": ["examples/fungible-vault (from source)", "vault::Vault::*", "math::mul_div_i128", "fungible Base (share token and asset token: balances, allowances with expiry)"], "stub": ["Wallet (accept-all signature check)", "Asset::transfer/transfer_from fault point: trap before / after moving funds (scripted)"]})
    }
    fn clock_step(&self, n: u32) -> Option<Step> {
        Some(Step::Advance { n })
    }
    fn probes(&self, _prop: &str) -> std::vec::Vec<&'static str> {
        vec!["probe.huge_unspecified", "probe.rounding_dust_to_vault"]
    }
    fn dup_ok(&self, _s: &Step) -> bool {
        true
    }
    fn reorder_ok(&self) -> bool {
        true
    }
    fn property_of(&self, check: &str) -> std::vec::Vec<&'static str> {
        if check.starts_with("events.") {
            vec!["C01"]
        } else if check.starts_with("convert.") || check.starts_with("preview.") || check.starts_with("rate.") || check.starts_with("max.") {
            vec!["C05"]
        } else if check.starts_with("auth.") {
            // somebody's shares or assets left without that party's consent: C02's clause, and at the same time C05's first
            // sentence (a participant takes out value it did not put in)
            vec!["C02", "C05"]
        } else if check.starts_with("allowance.") {
            vec!["C02"]
        } else if check == "fail.no_trace" || check.starts_with("move.") {
            vec!["C01", "C05"]
        } else {
            vec![]
        }
    }
    fn generate(&self, rng: &mut Rng, tier: Tier) -> (Cfg, Vec<Step>) {
        let cfg = Cfg { actors: 3 + rng.below(2) as usize, offset: rng.below(11) as u32, start_ledger: 10 + rng.below(1000) as u32 };
        let n = cfg.actors as u64;
        let nsteps = if tier == Tier::Quick { 25 + rng.below(40) } else { 25 + rng.below(90) } as usize;
        let mut m = Model { off: cfg.offset, now: cfg.start_ledger, ..Default::default() };
        let huge_run = rng.chance(12);
        let fault = if rng.chance(30) { 0 } else { 4 + rng.below(16) };
        let trap_run = rng.chance(35);
        let mut steps = vec![];
        for k in 0..nsteps {
            let any = |rng: &mut Rng| rng.below(n) as usize;
            let amt = |rng: &mut Rng, cap: i128| -> i128 {
                match rng.below(12) {
                    0 => 0,
                    1 => 1,
                    2 => cap,
                    3 => cap.saturating_add(1),
                    4 => (cap - 1).max(0),
                    5 => [2, 3, 5, 7, 11, 13, 97, 101, 997, 7919][rng.below(10) as usize],
                    6 if huge_run => rng.amount_bits(),
                    7 if huge_run => i128::MAX / (1 + rng.below(1000) as i128),
                    _ => {
                        if cap > 0 {
                            1 + rng.below((cap.min(1_000_000_000) as u64).max(1)) as i128
                        } else {
                            1 + rng.below(1000) as i128
                        }
                    }
                }
            };
            let s = if k < 2 {
                Step::Fund { to: k % cfg.actors, amt: if huge_run { i128::MAX / 4 } else { 1_000 + rng.below(1_000_000_000) as i128 } }
            } else {
                match rng.below(100) {
                    0..=5 => Step::Fund { to: any(rng), amt: 1 + rng.below(1_000_000) as i128 },
                    6..=13 => {
                        let from = any(rng);
                        Step::Donate { from, amt: amt(rng, m.ab(from)) }
                    }
                    14..=18 => Step::ApproveAsset { owner: any(rng), spender: any(rng), amt: if rng.chance(10) { 0 } else { 1 + rng.below(1_000_000_000) as i128 }, live: if rng.chance(30) { rng.below(12) as u32 } else { 100_000 } },
                    19..=23 => Step::ApproveShares { owner: any(rng), spender: any(rng), amt: if rng.chance(10) { 0 } else if rng.chance(40) { 1 + rng.below(1_000_000_000) as i128 } else { i128::MAX / 2 }, live: if rng.chance(30) { rng.below(12) as u32 } else { 100_000 } },
                    24..=26 => {
                        // clock: small moves and moves onto / one past an allowance deadline
                        let ds: std::vec::Vec<u32> = m.s_allow.values().chain(m.a_allow.values()).filter(|v| v.0 > 0 && v.1 >= m.now && v.1 < m.now + 1000).map(|v| v.1).collect();
                        let n = if !ds.is_empty() && rng.chance(60) { (*rng.pick(&ds) + rng.below(2) as u32) - m.now } else { rng.below(4) as u32 };
                        Step::Advance { n }
                    }
                    27..=29 if trap_run => Step::AssetTrap { mode: if m.trap != 0 { 0 } else { 1 + rng.below(2) as u32 } },
                    27..=32 => {
                        let hs: std::vec::Vec<usize> = (0..cfg.actors).filter(|x| m.sb(*x) > 0).collect();
                        let from = if hs.is_empty() || rng.chance(15) { any(rng) } else { *rng.pick(&hs) };
                        let to = if rng.chance(10) { from } else { any(rng) };
                        Step::TransferShares { from, to, amt: amt(rng, m.sb(from)), signer: Some(from) }
                    }
                    33..=48 => {
                        let from = any(rng);
                        let operator = if rng.chance(75) { from } else { any(rng) };
                        Step::Deposit { assets: amt(rng, m.ab(from)), receiver: any(rng), from, operator, signer: Some(operator) }
                    }
                    49..=61 => {
                        let from = any(rng);
                        let operator = if rng.chance(75) { from } else { any(rng) };
                        let cap = fits(&m.to_shares(m.ab(from), false)).unwrap_or(i128::MAX);
                        Step::Mint { shares: amt(rng, cap), receiver: any(rng), from, operator, signer: Some(operator) }
                    }
                    62..=80 => {
                        let hs: std::vec::Vec<usize> = (0..cfg.actors).filter(|x| m.sb(*x) > 0).collect();
                        let owner = if hs.is_empty() || rng.chance(15) { any(rng) } else { *rng.pick(&hs) };
                        let operator = if rng.chance(70) { owner } else { any(rng) };
                        let cap = fits(&m.to_assets(m.sb(owner), false)).unwrap_or(i128::MAX);
                        let cap = if operator != owner && rng.chance(50) { cap.min(fits(&m.to_assets(m.sal(owner, operator).min(m.sb(owner)), false)).unwrap_or(cap)) } else { cap };
                        Step::Withdraw { assets: amt(rng, cap), receiver: any(rng), owner, operator, signer: Some(operator) }
                    }
                    _ => {
                        let hs: std::vec::Vec<usize> = (0..cfg.actors).filter(|x| m.sb(*x) > 0).collect();
                        let owner = if hs.is_empty() || rng.chance(15) { any(rng) } else { *rng.pick(&hs) };
                        let operator = if rng.chance(70) { owner } else { any(rng) };
                        let cap = if operator != owner && rng.chance(50) { m.sal(owner, operator).min(m.sb(owner)) } else { m.sb(owner) };
                        Step::Redeem { shares: amt(rng, cap), receiver: any(rng), owner, operator, signer: Some(operator) }
                    }
                }
            };
            // fault: the authorization set — nobody signs, the owner/from/receiver signs instead of the operator, a stranger signs
            let s = if rng.chance(fault) {
                let alt = |rng: &mut Rng, parties: &[usize]| -> Option<usize> {
                    match rng.below(3) {
                        0 => None,
                        1 => Some(*rng.pick(parties)),
                        _ => Some(rng.below(n) as usize),
                    }
                };
                match s {
                    Step::Deposit { assets, receiver, from, operator, .. } => Step::Deposit { assets, receiver, from, operator, signer: alt(rng, &[receiver, from]) },
                    Step::Mint { shares, receiver, from, operator, .. } => Step::Mint { shares, receiver, from, operator, signer: alt(rng, &[receiver, from]) },
                    Step::Withdraw { assets, receiver, owner, operator, .. } => Step::Withdraw { assets, receiver, owner, operator, signer: alt(rng, &[receiver, owner]) },
                    Step::Redeem { shares, receiver, owner, operator, .. } => Step::Redeem { shares, receiver, owner, operator, signer: alt(rng, &[receiver, owner]) },
                    Step::TransferShares { from, to, amt, .. } => Step::TransferShares { from, to, amt, signer: alt(rng, &[to]) },
                    other => other,
                }
            } else {
                s
            };
            m.apply(&s);
            steps.push(s);
        }
        (cfg, steps)
    }
    fn execute(&self, cfg: &Cfg, steps: &[Step], st: &mut Stats) -> Result<(), Violation> {
        let w = W::new(cfg.actors, cfg.start_ledger, 16);
        let e = &w.e;
        let a = |i: usize| w.actors[i].clone();
        let asset = e.register(Asset, ());
        let ac = AssetClient::new(e, &asset);
        let vid = e.register(Vault, (SString::from_str(e, "v"), SString::from_str(e, "V"), asset.clone(), cfg.offset));
        let v = VaultClient::new(e, &vid);
        let mut m = Model { off: cfg.offset, now: cfg.start_ledger, ..Default::default() };
        let vaddr: soroban_sdk::xdr::ScAddress = (&vid).try_into().unwrap();
        let mut ev_shares: BTreeMap<usize, i128> = BTreeMap::new(); // share balances replayed from deposit / withdraw / transfer events
        for (i, s) in steps.iter().enumerate() {
            let mut parked: Option<Violation> = None;
            // rate before: (A+1)/(S+10^off)
            let (a0, s0) = (m.total_assets(), m.supply);
            let kind;
            let mut preview: Option<i128> = None;
            let digest_before = w.storage_digest(&[&vid, &asset]);
            let allow_before: Vec<(i128, i128)> = (0..cfg.actors).flat_map(|o| (0..cfg.actors).map(move |sp| (o, sp))).map(|(o, sp)| (v.allowance(&a(o), &a(sp)), ac.allowance(&a(o), &a(sp)))).collect();
            let before_assets: Vec<i128> = (0..cfg.actors).map(|x| ac.balance(&a(x))).chain([ac.balance(&vid)]).collect();
            let before_shares: Vec<i128> = (0..cfg.actors).map(|x| v.balance(&a(x))).collect();
            let res: Option<i128> = match s {
                Step::Fund { to, amt } => {
                    kind = "fund";
                    w.set_auth(&[]);
                    ac.try_mint(&a(*to), amt).ok().map(|_| 0)
                }
                Step::Donate { from, amt } => {
                    kind = "donate";
                    w.set_auth(&[(*from, Inv::new(&asset, "transfer", (a(*from), vid.clone(), *amt).into_val(e)))]);
                    ac.try_transfer(&a(*from), &vid, amt).ok().map(|_| 0)
                }
                Step::ApproveAsset { owner, spender, amt, live } => {
                    kind = "approve_asset";
                    let l = w.now() + live;
                    w.set_auth(&[(*owner, Inv::new(&asset, "approve", (a(*owner), a(*spender), *amt, l).into_val(e)))]);
                    ac.try_approve(&a(*owner), &a(*spender), amt, &l).ok().map(|_| 0)
                }
                Step::ApproveShares { owner, spender, amt, live } => {
                    kind = "approve_shares";
                    let l = w.now() + live;
                    w.set_auth(&[(*owner, Inv::new(&vid, "approve", (a(*owner), a(*spender), *amt, l).into_val(e)))]);
                    v.try_approve(&a(*owner), &a(*spender), amt, &l).ok().map(|_| 0)
                }
                Step::AssetTrap { mode } => {
                    kind = "collab";
                    w.set_auth(&[]);
                    ac.set_trap(mode);
                    st.hit("collab.asset_trap_script_changed");
                    Some(0)
                }
                Step::Advance { n } => {
                    kind = "advance";
                    w.advance(*n);
                    st.ledgers += *n as u64;
                    st.hit("clock.advance");
                    Some(0)
                }
                Step::TransferShares { from, to, amt, signer } => {
                    kind = "transfer_shares";
                    match signer {
                        Some(x) => w.set_auth(&[(*x, Inv::new(&vid, "transfer", (a(*from), a(*to), *amt).into_val(e)))]),
                        None => w.set_auth(&[]),
                    }
                    v.try_transfer(&a(*from), &MuxedAddress::from(a(*to)), amt).ok().and_then(|r| r.ok()).map(|_| 0)
                }
                Step::Deposit { assets, receiver, from, operator, signer } => {
                    kind = "deposit";
                    preview = v.try_preview_deposit(assets).ok().and_then(|r| r.ok());
                    let sub = if operator == from { Inv::new(&asset, "transfer", (a(*from), vid.clone(), *assets).into_val(e)) } else { Inv::new(&asset, "transfer_from", (a(*operator), a(*from), vid.clone(), *assets).into_val(e)) };
                    match signer {
                        Some(x) => w.set_auth(&[(*x, Inv::new(&vid, "deposit", (*assets, a(*receiver), a(*from), a(*operator)).into_val(e)).with(sub))]),
                        None => w.set_auth(&[]),
                    }
                    v.try_deposit(assets, &a(*receiver), &a(*from), &a(*operator)).ok().and_then(|r| r.ok())
                }
                Step::Mint { shares, receiver, from, operator, signer } => {
                    kind = "mint";
                    preview = v.try_preview_mint(shares).ok().and_then(|r| r.ok());
                    let need = preview.unwrap_or(0);
                    let sub = if operator == from { Inv::new(&asset, "transfer", (a(*from), vid.clone(), need).into_val(e)) } else { Inv::new(&asset, "transfer_from", (a(*operator), a(*from), vid.clone(), need).into_val(e)) };
                    match signer {
                        Some(x) => w.set_auth(&[(*x, Inv::new(&vid, "mint", (*shares, a(*receiver), a(*from), a(*operator)).into_val(e)).with(sub))]),
                        None => w.set_auth(&[]),
                    }
                    v.try_mint(shares, &a(*receiver), &a(*from), &a(*operator)).ok().and_then(|r| r.ok())
                }
                Step::Withdraw { assets, receiver, owner, operator, signer } => {
                    kind = "withdraw";
                    preview = v.try_preview_withdraw(assets).ok().and_then(|r| r.ok());
                    match signer {
                        Some(x) => w.set_auth(&[(*x, Inv::new(&vid, "withdraw", (*assets, a(*receiver), a(*owner), a(*operator)).into_val(e)))]),
                        None => w.set_auth(&[]),
                    }
                    v.try_withdraw(assets, &a(*receiver), &a(*owner), &a(*operator)).ok().and_then(|r| r.ok())
                }
                Step::Redeem { shares, receiver, owner, operator, signer } => {
                    kind = "redeem";
                    preview = v.try_preview_redeem(shares).ok().and_then(|r| r.ok());
                    match signer {
                        Some(x) => w.set_auth(&[(*x, Inv::new(&vid, "redeem", (*shares, a(*receiver), a(*owner), a(*operator)).into_val(e)))]),
                        None => w.set_auth(&[]),
                    }
                    v.try_redeem(shares, &a(*receiver), &a(*owner), &a(*operator)).ok().and_then(|r| r.ok())
                }
            };
            let events = if res.is_some() { w.last_events() } else { vec![] };
            let snapshot = m.clone();
            let exp = m.apply(s);
            debug_assert!(m.now == w.now());
            let got = res.is_some();
            if kind != "advance" && kind != "collab" {
                st.tx(kind, got);
            }
            // fault accounting (fired = a tx was delivered under this fault)
            let (op_signer, op_operator): (Option<Option<usize>>, Option<usize>) = match s {
                Step::Deposit { signer, operator, .. } | Step::Mint { signer, operator, .. } | Step::Withdraw { signer, operator, .. } | Step::Redeem { signer, operator, .. } => (Some(*signer), Some(*operator)),
                Step::TransferShares { signer, from, .. } => (Some(*signer), Some(*from)),
                _ => (None, None),
            };
            if let (Some(sg), Some(op)) = (op_signer, op_operator) {
                if sg.is_none() {
                    st.hit("fault.auth_missing");
                } else if sg != Some(op) {
                    st.hit("fault.auth_foreign");
                }
                if snapshot.trap != 0 {
                    st.hit(if snapshot.trap == 1 { "fault.asset_trap_before_move" } else { "fault.asset_trap_after_move" });
                }
            }
            // ---- C02, stated without the model's outcome: whose shares / assets fell, and was that allowed?
            if got {
                if let Some(sg) = op_signer {
                    for x in 0..cfg.actors {
                        let (sh_now, as_now) = (v.balance(&a(x)), ac.balance(&a(x)));
                        let idx = |o: usize, sp: usize| o * cfg.actors + sp;
                        if sh_now < before_shares[x] {
                            let by_holder = sg == Some(x) && matches!(s, Step::Withdraw { owner, operator, .. } | Step::Redeem { owner, operator, .. } if *owner == x && *operator == x) || sg == Some(x) && matches!(s, Step::TransferShares { from, .. } if *from == x);
                            let by_allowance = match s {
                                Step::Withdraw { owner, operator, .. } | Step::Redeem { owner, operator, .. } if *owner == x && operator != owner && sg == Some(*operator) => {
                                    let spent = before_shares[x] - sh_now;
                                    let al0 = allow_before[idx(x, *operator)].0;
                                    let al1 = v.allowance(&a(x), &a(*operator));
                                    if al0 >= spent && al1 != al0 - spent {
                                        self.clause(st, &mut parked, violation("allowance.exact_decrement", kind, i, format!("share allowance ({x},{operator}) {al0} -> {al1} after spending {spent} in {s:?}")))?;
                                    }
                                    al0 >= spent
                                }
                                _ => false,
                            };
                            if !(by_holder || by_allowance) {
                                self.clause(st, &mut parked, violation("auth.debit_needs_holder_or_allowance", kind, i, format!("shares of actor {x} fell {} -> {sh_now} in {s:?} (root entry signed by {sg:?})", before_shares[x])))?;
                            }
                        }
                        if as_now < before_assets[x] {
                            let by_holder = sg == Some(x) && matches!(s, Step::Deposit { from, operator, .. } | Step::Mint { from, operator, .. } if *from == x && *operator == x);
                            let by_allowance = match s {
                                Step::Deposit { from, operator, .. } | Step::Mint { from, operator, .. } if *from == x && operator != from && sg == Some(*operator) => {
                                    let spent = before_assets[x] - as_now;
                                    let al0 = allow_before[idx(x, *operator)].1;
                                    let al1 = ac.allowance(&a(x), &a(*operator));
                                    if al0 >= spent && al1 != al0 - spent {
                                        self.clause(st, &mut parked, violation("allowance.exact_decrement", kind, i, format!("asset allowance ({x},{operator}) {al0} -> {al1} after spending {spent} in {s:?}")))?;
                                    }
                                    al0 >= spent
                                }
                                _ => false,
                            };
                            if !(by_holder || by_allowance) {
                                self.clause(st, &mut parked, violation("auth.debit_needs_holder_or_allowance", kind, i, format!("assets of actor {x} fell {} -> {as_now} in {s:?} (root entry signed by {sg:?})", before_assets[x])))?;
                            }
                        }
                    }
                }
            }
            let is_vault_op = matches!(s, Step::Deposit { .. } | Step::Mint { .. } | Step::Withdraw { .. } | Step::Redeem { .. });
            if matches!((&exp, got), (Exp::Fail, true) | (Exp::Ok { .. }, false)) {
                if let Some(v) = parked.take() {
                    return Err(v);
                }
            }
            match (&exp, got) {
                (Exp::Fail, true) if matches!(op_signer, Some(sg) if sg != op_operator) => return Err(violation("auth.operator_must_authorize", kind, i, format!("{s:?} succeeded although the operator did not sign"))),
                (Exp::Fail, true) => return Err(violation("refine.must_fail", kind, i, format!("{s:?} succeeded with {res:?}; model before: A={a0} S={s0} off={}", cfg.offset))),
                (Exp::Ok { .. }, false) => return Err(violation("live.must_succeed", kind, i, format!("{s:?} failed; model before: A={a0} S={s0} off={} expected {exp:?}", cfg.offset))),
                (Exp::Unspecified, false) => {
                    st.hit("probe.huge_unspecified");
                    m = snapshot; // nothing happened
                }
                (Exp::Unspecified, true) => unreachable!("model returns Unspecified only for failures"),
                _ => {}
            }
            if got && is_vault_op {
                let Exp::Ok { assets, shares } = exp else { unreachable!() };
                let ret = res.unwrap();
                let (want_ret, what) = match s {
                    Step::Deposit { .. } | Step::Withdraw { .. } => (shares, "shares"),
                    _ => (assets, "assets"),
                };
                if ret != want_ret {
                    self.clause(st, &mut parked, violation("convert.exact_rounded", kind, i, format!("{s:?} returned {ret} {what}, exact formula gives {want_ret}; A={a0} S={s0} off={}", cfg.offset)))?;
                }
                if preview != Some(ret) {
                    self.clause(st, &mut parked, violation("preview.eq_operation", kind, i, format!("{s:?}: preview {preview:?} but operation returned {ret}")))?;
                }
                // rate monotone: (A'+1)(S+v) >= (A+1)(S'+v)
                let vv = BigInt::from(10u32).pow(cfg.offset);
                let lhs = (big(m.total_assets()) + 1) * (big(s0) + &vv);
                let rhs = (big(a0) + 1) * (big(m.supply) + &vv);
                if lhs < rhs {
                    self.clause(st, &mut parked, violation("rate.monotone", kind, i, format!("{s:?}: rate fell: A {a0}->{} S {s0}->{}", m.total_assets(), m.supply)))?;
                }
                if lhs > rhs {
                    st.hit("probe.rounding_dust_to_vault");
                }
            }
            // ---- C01 for vault shares: deposit / withdraw (and transfer) events replay to every share balance
            if got {
                let mut n_share_events = 0;
                for ev in events.iter().filter(|x| x.contract == vaddr) {
                    let bad = || violation("events.replay_balances", "malformed", i, format!("event {} of {s:?} does not name its parties / amounts as documented", ev.name));
                    match ev.name.as_str() {
                        "deposit" => {
                            n_share_events += 1;
                            *ev_shares.entry(w.party(ev, 2).ok_or_else(bad)?).or_insert(0) += ev.amt("shares").ok_or_else(bad)?;
                        }
                        "withdraw" => {
                            n_share_events += 1;
                            *ev_shares.entry(w.party(ev, 2).ok_or_else(bad)?).or_insert(0) -= ev.amt("shares").ok_or_else(bad)?;
                        }
                        "transfer" => {
                            n_share_events += 1;
                            *ev_shares.entry(w.party(ev, 0).ok_or_else(bad)?).or_insert(0) -= ev.amt("amount").ok_or_else(bad)?;
                            *ev_shares.entry(w.party(ev, 1).ok_or_else(bad)?).or_insert(0) += ev.amt("amount").ok_or_else(bad)?;
                        }
                        _ => {}
                    }
                }
                if is_vault_op && n_share_events != 1 {
                    self.clause(st, &mut parked, violation("events.one_per_update", kind, i, format!("{n_share_events} share events for {s:?}")))?;
                }
            }
            for x in 0..cfg.actors {
                if *ev_shares.get(&x).unwrap_or(&0) != m.sb(x) {
                    self.clause(st, &mut parked, violation("events.replay_balances", kind, i, format!("actor {x}: share events give {}, balance {} after {s:?}", ev_shares.get(&x).unwrap_or(&0), m.sb(x))))?;
                }
            }
            // ---- exact movement between exactly the named parties (model == real for everyone)
            for x in 0..cfg.actors {
                let (ra, rs) = (ac.balance(&a(x)), v.balance(&a(x)));
                if ra != m.ab(x) || rs != m.sb(x) {
                    self.clause(st, &mut parked, violation("move.exact_parties_amounts", kind, i, format!("actor {x}: assets {ra} (model {}, before {}), shares {rs} (model {}, before {}) after {s:?}", m.ab(x), before_assets[x], m.sb(x), before_shares[x])))?;
                }
            }
            let (ta, ts) = (v.total_assets(), v.total_supply());
            if ta != m.total_assets() || ts != m.supply || ac.balance(&vid) != ta {
                self.clause(st, &mut parked, violation("move.exact_parties_amounts", "vault", i, format!("total_assets {ta} (model {}), total_supply {ts} (model {}) after {s:?}", m.total_assets(), m.supply)))?;
            }
            if !got {
                let after: Vec<i128> = (0..cfg.actors).map(|x| ac.balance(&a(x))).chain([ac.balance(&vid)]).collect();
                if after != before_assets || w.storage_digest(&[&vid, &asset]) != digest_before {
                    self.clause(st, &mut parked, violation("fail.no_trace", kind, i, format!("vault / asset state changed by failed {s:?}")))?;
                }
            }
            // ---- allowances (shares and asset) equal the model, incl. expiry
            for o in 0..cfg.actors {
                for sp in 0..cfg.actors {
                    let (rs, ra) = (v.allowance(&a(o), &a(sp)), ac.allowance(&a(o), &a(sp)));
                    if rs != m.sal(o, sp) || ra != m.aal(o, sp) {
                        self.clause(st, &mut parked, violation("allowance.model_eq", kind, i, format!("({o},{sp}): share allowance {rs} (model {}), asset allowance {ra} (model {}) at ledger {} after {s:?}", m.sal(o, sp), m.aal(o, sp), w.now())))?;
                    }
                }
            }
            // ---- views: conversions, previews and max_* equal the exact formula in the state just reached
            if i % 3 == 0 || is_vault_op {
                for x in [1i128, 7, 1_000, 999_983, m.supply.max(1), m.total_assets().max(1)] {
                    if m.huge(x) || !m.conv_ok() {
                        continue;
                    }
                    let chk = |name: &str, real: Option<i128>, want: BigInt| -> Result<(), Violation> {
                        match (real, fits(&want)) {
                            (Some(r), Some(wv)) if r == wv => Ok(()),
                            // a quotient that does not fit i128 must be refused
                            (None, None) => Ok(()),
                            (r, wv) => Err(violation("convert.exact_rounded", name, i, format!("{name}({x}) = {r:?}, exact formula {wv:?}; A={} S={} off={}", m.total_assets(), m.supply, cfg.offset))),
                        }
                    };
                    if let Err(v) = chk("convert_to_shares", v.try_convert_to_shares(&x).ok().and_then(|r| r.ok()), m.to_shares(x, false)) { self.clause(st, &mut parked, v)?; }
                    if let Err(v) = chk("convert_to_assets", v.try_convert_to_assets(&x).ok().and_then(|r| r.ok()), m.to_assets(x, false)) { self.clause(st, &mut parked, v)?; }
                    if let Err(v) = chk("preview_deposit", v.try_preview_deposit(&x).ok().and_then(|r| r.ok()), m.to_shares(x, false)) { self.clause(st, &mut parked, v)?; }
                    if let Err(v) = chk("preview_mint", v.try_preview_mint(&x).ok().and_then(|r| r.ok()), m.to_assets(x, true)) { self.clause(st, &mut parked, v)?; }
                    if let Err(v) = chk("preview_withdraw", v.try_preview_withdraw(&x).ok().and_then(|r| r.ok()), m.to_shares(x, true)) { self.clause(st, &mut parked, v)?; }
                    if let Err(v) = chk("preview_redeem", v.try_preview_redeem(&x).ok().and_then(|r| r.ok()), m.to_assets(x, false)) { self.clause(st, &mut parked, v)?; }
                }
                if !m.huge(0) && m.conv_ok() {
                    for x in 0..cfg.actors {
                        let mw = v.try_max_withdraw(&a(x)).ok().and_then(|r| r.ok());
                        let mr = v.try_max_redeem(&a(x)).ok().and_then(|r| r.ok());
                        if mw != fits(&m.to_assets(m.sb(x), false)) || mr != Some(m.sb(x)) {
                            self.clause(st, &mut parked, violation("max.bounds_respected", "max_withdraw/max_redeem", i, format!("actor {x}: max_withdraw {mw:?} (formula {:?}), max_redeem {mr:?} (shares {})", fits(&m.to_assets(m.sb(x), false)), m.sb(x))))?;
                        }
                    }
                }
            }
            if let Some(v) = parked.take() {
                return Err(v);
            }
            // abstract state: op, outcome, who acts for whom, rate regime, allowances alive, fault script
            let parties = match s { Step::Deposit { receiver, from, operator, .. } | Step::Mint { receiver, from, operator, .. } => (receiver == from, from == operator), Step::Withdraw { receiver, owner, operator, .. } | Step::Redeem { receiver, owner, operator, .. } => (receiver == owner, owner == operator), _ => (true, true) };
            st.state(&(kind, got, parties, m.supply > 0, m.total_assets().cmp(&m.supply) as i8, cfg.offset.min(3), m.trap, m.s_allow.values().filter(|v| v.0 > 0 && v.1 >= m.now).count().min(2), (m.total_assets() + 1) % (m.supply.max(1)) == 0));
        }
        Ok(())
    }
}
