//! C19: fee forwarding charges at most the authorized fee for the authorized call only
//! (both forwarder examples compiled from source over a real Base fee token).

use crate::core::*;
use crate::world::{Base as W, Inv};
use serde::{Deserialize, Serialize};
#[allow(unused_imports)]
use soroban_sdk::{contract, contractimpl, symbol_short, vec as svec, Address, Env, IntoVal, MuxedAddress, String as SString, Symbol, Val, Vec};
use std::collections::{BTreeMap, BTreeSet};
use stellar_fee_abstraction::FeeAbstractionStorageKey;
use stellar_tokens::fungible::{Base, FungibleToken};

mod less {
    #[path = "/repo/examples/fee-forwarder-permissionless/src/contract.rs"]
    pub mod c;
}
mod perm {
    #[path = "/repo/examples/fee-forwarder-permissioned/src/contract.rs"]
    pub mod c;
}

#[contract]
pub struct FeeTok;
#[contractimpl]
impl FeeTok {
    pub fn __constructor(e: &Env) {
        Base::set_metadata(e, 7, SString::from_str(e, "fee"), SString::from_str(e, "FEE"));
    }
    pub fn mint(e: &Env, to: Address, amount: i128) {
        Base::mint(e, &to, amount);
    }
}
#[contractimpl(contracttrait)]
impl FungibleToken for FeeTok {
    type ContractType = Base;
}

/// an integrator's contract that uses the documented low-level helper `collect_fee` directly (no authorization of its own):
/// the only thing between a caller and the contract's own funds is the helper's "user is this contract" refusal
#[contract]
pub struct Collector;
#[contractimpl]
impl Collector {
    pub fn collect(e: &Env, fee_token: Address, fee: i128, max: i128, expiration_ledger: u32, user: Address, recipient: Address, eager: bool) {
        let approval = if eager { stellar_fee_abstraction::FeeAbstractionApproval::Eager } else { stellar_fee_abstraction::FeeAbstractionApproval::Lazy };
        stellar_fee_abstraction::collect_fee(e, &fee_token, fee, max, expiration_ledger, &user, &recipient, approval)
    }
}

#[contract]
pub struct Target;
#[contractimpl]
impl Target {
    pub fn hit(e: &Env, user: Address, v: u32) -> u32 {
        user.require_auth();
        let n: u32 = e.storage().instance().get(&symbol_short!("n")).unwrap_or(0);
        e.storage().instance().set(&symbol_short!("n"), &(n + 1));
        e.storage().instance().set(&symbol_short!("last"), &v);
        if e.storage().instance().get(&symbol_short!("trap")).unwrap_or(false) {
            panic!("scripted target trap");
        }
        v
    }
    pub fn count(e: &Env) -> u32 {
        e.storage().instance().get(&symbol_short!("n")).unwrap_or(0)
    }
    pub fn last(e: &Env) -> u32 {
        e.storage().instance().get(&symbol_short!("last")).unwrap_or(0)
    }
    pub fn set_trap(e: &Env, on: bool) {
        e.storage().instance().set(&symbol_short!("trap"), &on);
    }
}

#[derive(Clone, Copy, Debug, Serialize, Deserialize, PartialEq)]
pub enum Tamper {
    None,
    Target,
    Args,
    Token,
    Max,
    Exp,
}
#[derive(Clone, Debug, Serialize, Deserialize)]
pub enum Step {
    /// mint to the user — or (anybody may send a contract tokens) to the forwarder contract itself
    Fund { token: usize, #[serde(with = "i128s")] amt: i128, #[serde(default)] to_forwarder: bool },
    PreApprove { token: usize, #[serde(with = "i128s")] amt: i128, live_for: u32 },
    Forward { token: usize, #[serde(with = "i128s")] fee: i128, #[serde(with = "i128s")] max: i128, exp_rel: i64, arg: u32, tamper: Tamper, user_signs: bool, relayer: usize, relayer_signs: bool },
    /// forward(…, user = the forwarder's own address, …): nobody can authorize for the forwarder, so this must fail without effect
    /// (otherwise the relayer could spend the fees the forwarder holds)
    ForwardSelf { token: usize, #[serde(with = "i128s")] fee: i128, #[serde(with = "i128s")] max: i128 },
    /// collect_fee(…, user = the collecting contract itself, …) on a contract that holds `fee` of the token: must be refused
    CollectSelf { token: usize, #[serde(with = "i128s")] fee: i128, #[serde(with = "i128s")] max: i128, eager: bool },
    Allow { token: usize, on: bool, by_manager: bool },
    /// permissioned forwarder: the manager sweeps the collected fees of a token to a recipient
    Sweep { token: usize, to: usize, by_manager: bool },
    SetTrap { on: bool },
    Advance { n: u32 },
}
#[derive(Clone, Debug, Serialize, Deserialize)]
pub struct Cfg {
    pub permissioned: bool,
    pub start_ledger: u32,
}
const MAX_TTL: u32 = 6_311_999;
// actors: 0 user, 1 relayer/executor, 2 manager, 3 stranger, 4 admin
#[derive(Clone, Debug, Default)]
struct Model {
    bal: BTreeMap<(usize, usize), i128>, // (token, holder) ; holder 100 = forwarder
    allow: BTreeMap<usize, (i128, u32)>,  // token -> allowance(user, forwarder)
    allowed: std::vec::Vec<usize>,       // enumeration order is not modelled; set semantics
    hits: u32,
    trap: bool,
    now: u32,
}
impl Model {
    fn b(&self, t: usize, h: usize) -> i128 {
        *self.bal.get(&(t, h)).unwrap_or(&0)
    }
    fn al(&self, t: usize) -> i128 {
        match self.allow.get(&t) {
            Some((a, l)) if *l >= self.now => *a,
            _ => 0,
        }
    }
    fn approve(&mut self, t: usize, amt: i128, l: u32) -> bool {
        if amt < 0 || l > self.now + MAX_TTL || (amt > 0 && l < self.now) {
            return false;
        }
        self.allow.insert(t, (amt, l));
        true
    }
    fn forward(&mut self, cfg: &Cfg, s: &Step) -> bool {
        let Step::Forward { token, fee, max, exp_rel, tamper, user_signs, relayer, relayer_signs, .. } = s else { unreachable!() };
        let exp = (self.now as i64 + exp_rel).max(0) as u32;
        if !*user_signs || !*relayer_signs || *tamper != Tamper::None {
            return false;
        }
        if cfg.permissioned && *relayer != 1 {
            return false; // only actor 1 holds the executor role
        }
        if !self.allowed.is_empty() && !self.allowed.contains(token) {
            return false;
        }
        if *fee <= 0 || fee > max {
            return false;
        }
        let snap = self.clone();
        let ok = (|| {
            if cfg.permissioned {
                // lazy
                if self.al(*token) < *max {
                    if !self.approve(*token, *max, exp) {
                        return false;
                    }
                } else if exp < self.now {
                    return false;
                }
            } else if !self.approve(*token, *max, exp) {
                return false;
            }
            // transfer_from(forwarder, user, recipient, fee)
            if self.al(*token) < *fee || self.b(*token, 0) < *fee {
                return false;
            }
            let e = self.allow.get_mut(token).unwrap();
            e.0 -= fee;
            *self.bal.entry((*token, 0)).or_insert(0) -= fee;
            let recipient = if cfg.permissioned { 100 } else { *relayer };
            *self.bal.entry((*token, recipient)).or_insert(0) += fee;
            if self.trap {
                return false;
            }
            self.hits += 1;
            true
        })();
        if !ok {
            *self = snap;
        }
        ok
    }
}

pub struct Forwarder;

impl Check for Forwarder {
    type Cfg = Cfg;
    type Step = Step;
    fn id(&self) -> &'static str {
        "forwarder"
    }
    fn runs(&self, tier: Tier) -> u64 {
        if tier == Tier::Quick {
            5000
        } else {
            100000
        }
    }
    fn components(&self) -> serde_json::Value {
        serde_json::json!({"real": ["examples/fee-forwarder-permissionless and -permissioned (from source)", "stellar_fee_abstraction::*", "fungible Base fee token", "access_control roles (permissioned)"], "stub": ["Target (records calls, requires the user's auth, scripted trap)", "Wallet"]})
    }
    fn property_of(&self, check: &str) -> std::vec::Vec<&'static str> {
        if check.starts_with("roles.") {
            vec!["C06", "C19"]
        } else {
            vec!["C19"]
        }
    }
    fn clock_step(&self, n: u32) -> Option<Step> {
        Some(Step::Advance { n })
    }
    fn probes(&self, _prop: &str) -> std::vec::Vec<&'static str> {
        vec!["probe.forward_expired_with_allowance_exactly_at_max", "probe.forward_with_allowance_exactly_at_max", "probe.fees_swept", "probe.forward_as_forwarder", "probe.collect_fee_from_itself_eager", "probe.collect_fee_from_itself_lazy", "probe.forward_as_forwarder_while_it_holds_fees"]
    }
    fn dup_ok(&self, _s: &Step) -> bool {
        true
    }
    fn reorder_ok(&self) -> bool {
        true
    }
    fn generate(&self, rng: &mut Rng, tier: Tier) -> (Cfg, std::vec::Vec<Step>) {
        let cfg = Cfg { permissioned: rng.chance(50), start_ledger: 10 + rng.below(100_000) as u32 };
        let nsteps = if tier == Tier::Quick { 25 + rng.below(35) } else { 25 + rng.below(70) } as usize;
        let mut m = Model { now: cfg.start_ledger, ..Default::default() };
        let mut steps = vec![];
        for k in 0..nsteps {
            let token = rng.below(2) as usize;
            let s = if k == 0 {
                Step::Fund { token: 0, amt: 10_000 + rng.below(1_000_000) as i128, to_forwarder: false }
            } else {
                match rng.below(100) {
                    0..=7 => Step::Fund { token, amt: 1 + rng.below(100_000) as i128, to_forwarder: rng.chance(20) },
                    8..=15 => Step::PreApprove { token, amt: match rng.below(4) { 0 => 0, 1 => 50, _ => 1 + rng.below(5_000) as i128 }, live_for: rng.below(30) as u32 },
                    16..=70 => {
                        // a quarter of the forwards with a live pre-existing allowance aim the maximum at it: exactly at, one below, one above
                        let live_al = m.al(token);
                        let max: i128 = if live_al > 0 && rng.chance(25) { live_al + rng.below(3) as i128 - 1 } else { match rng.below(6) { 0 => 0, 1 => -3, _ => 1 + rng.below(2_000) as i128 } };
                        let fee = match rng.below(8) { 0 => 0, 1 => -1, 2 => max + 1, 3 => max, 4 => m.b(token, 0) + 1, _ => if max > 0 { 1 + rng.below(max as u64) as i128 } else { 1 } };
                        let exp_rel = match rng.below(8) { 0 => -1, 1 => 0, 2 => MAX_TTL as i64, 3 => MAX_TTL as i64 + 1, _ => 1 + rng.below(50) as i64 };
                        let tamper = if rng.chance(12) { *rng.pick(&[Tamper::Target, Tamper::Args, Tamper::Token, Tamper::Max, Tamper::Exp]) } else { Tamper::None };
                        Step::Forward { token, fee, max, exp_rel, arg: rng.below(1000) as u32, tamper, user_signs: !rng.chance(6), relayer: if rng.chance(90) { 1 } else { 3 }, relayer_signs: !rng.chance(5) }
                    }
                    71..=80 if cfg.permissioned => Step::Allow { token: rng.below(4) as usize, on: rng.chance(60), by_manager: !rng.chance(12) },
                    81 if rng.chance(50) => Step::CollectSelf { token, fee: 1 + rng.below(50) as i128, max: 50 + rng.below(1000) as i128, eager: rng.chance(50) },
                    81 => Step::ForwardSelf { token, fee: 1 + rng.below(50) as i128, max: 50 + rng.below(1000) as i128 },
                    82..=83 => Step::SetTrap { on: rng.chance(50) },
                    84..=85 if cfg.permissioned => Step::Sweep { token, to: *rng.pick(&[0usize, 1, 3]), by_manager: !rng.chance(15) },
                    84..=85 => Step::SetTrap { on: rng.chance(50) },
                    _ => {
                        let ds: std::vec::Vec<u32> = m.allow.values().filter(|v| v.0 > 0 && v.1 >= m.now).map(|v| v.1).collect();
                        Step::Advance { n: if !ds.is_empty() && rng.chance(60) { (*rng.pick(&ds) + rng.below(3) as u32).saturating_sub(1).saturating_sub(m.now) } else { rng.below(5) as u32 } }
                    }
                }
            };
            // generator-side model
            match &s {
                Step::Fund { token, amt, to_forwarder } => *m.bal.entry((*token, if *to_forwarder { 100 } else { 0 })).or_insert(0) += amt,
                Step::PreApprove { token, amt, live_for } => {
                    let l = m.now + live_for;
                    m.approve(*token, *amt, l);
                }
                Step::Forward { .. } => {
                    m.forward(&cfg, &s);
                }
                Step::ForwardSelf { .. } | Step::CollectSelf { .. } => {}
                Step::Allow { token, on, by_manager } => {
                    if *by_manager {
                        if *on && !m.allowed.contains(token) {
                            m.allowed.push(*token)
                        } else if !*on {
                            m.allowed.retain(|x| x != token)
                        }
                    }
                }
                Step::Sweep { token, to, by_manager } => {
                    let b = m.b(*token, 100);
                    if cfg.permissioned && *by_manager && b > 0 {
                        m.bal.insert((*token, 100), 0);
                        *m.bal.entry((*token, *to)).or_insert(0) += b;
                    }
                }
                Step::SetTrap { on } => m.trap = *on,
                Step::Advance { n } => m.now += n,
            }
            steps.push(s);
        }
        (cfg, steps)
    }
    fn execute(&self, cfg: &Cfg, steps: &[Step], st: &mut Stats) -> Result<(), Violation> {
        let w = W::new(5, cfg.start_ledger, 16);
        let e = &w.e;
        let a = |i: usize| w.actors[i].clone();
        // tokens 0 and 1 carry balances and fees; tokens 2 and 3 only populate the allow-list (swap-and-pop needs > 2 entries)
        let toks: std::vec::Vec<Address> = (0..4).map(|_| e.register(FeeTok, ())).collect();
        let tc: std::vec::Vec<FeeTokClient> = toks.iter().map(|t| FeeTokClient::new(e, t)).collect();
        let tgt = e.register(Target, ());
        let collector = e.register(Collector, ());
        let tg = TargetClient::new(e, &tgt);
        let tgt2 = e.register(Target, ());
        let fwd = if cfg.permissioned { e.register(perm::c::FeeForwarder, (a(4), a(2), svec![e, a(1)])) } else { e.register(less::c::FeeForwarder, ()) };
        let mut m = Model { now: cfg.start_ledger, ..Default::default() };
        let hit = Symbol::new(e, "hit");
        for (i, s) in steps.iter().enumerate() {
            w.set_auth(&[]);
            let mut before = w.storage_digest(&[&toks[0], &toks[1], &tgt, &fwd]);
            let mut kind = "other";
            let mut outcome: Option<(bool, bool)> = None; // (got, expected)
            match s {
                Step::Advance { n } => {
                    w.advance(*n);
                    m.now += n;
                    st.ledgers += *n as u64; st.hit("clock.advance"); if *n > 100_000 { st.hit("clock.jump"); }
                }
                Step::SetTrap { on } => {
                    tg.set_trap(on);
                    m.trap = *on;
                }
                Step::Fund { token, amt, to_forwarder } => {
                    let dest = if *to_forwarder { fwd.clone() } else { a(0) };
                    tc[*token].mint(&dest, amt);
                    *m.bal.entry((*token, if *to_forwarder { 100 } else { 0 })).or_insert(0) += amt;
                }
                Step::PreApprove { token, amt, live_for } => {
                    let l = w.now() + live_for;
                    w.set_auth(&[(0, Inv::new(&toks[*token], "approve", (a(0), fwd.clone(), *amt, l).into_val(e)))]);
                    let got = tc[*token].try_approve(&a(0), &fwd, amt, &l).is_ok();
                    let exp = m.approve(*token, *amt, l);
                    outcome = Some((got, exp));
                    kind = "pre_approve";
                }
                Step::Allow { token, on, by_manager } => {
                    kind = "allow";
                    let op = if *by_manager { 2 } else { 3 };
                    let f: &'static str = if *on { "enable_fee_token" } else { "disable_fee_token" };
                    w.set_auth(&[(op, Inv::new(&fwd, f, (toks[*token].clone(), a(op)).into_val(e)))]);
                    let pc = perm::c::FeeForwarderClient::new(e, &fwd);
                    let got = if *on { pc.try_enable_fee_token(&toks[*token], &a(op)).is_ok() } else { pc.try_disable_fee_token(&toks[*token], &a(op)).is_ok() };
                    let exp = *by_manager && (*on != m.allowed.contains(token));
                    if got && exp {
                        if *on { m.allowed.push(*token) } else { m.allowed.retain(|x| x != token) }
                    }
                    outcome = Some((got, exp));
                }
                Step::Sweep { token, to, by_manager } => {
                    kind = "sweep";
                    let op = if *by_manager { 2 } else { 3 };
                    let args: Vec<Val> = (toks[*token].clone(), a(*to), a(op)).into_val(e);
                    w.set_auth(&[(op, Inv::new(&fwd, "sweep_tokens", args.clone()))]);
                    let got = e.try_invoke_contract::<i128, soroban_sdk::Error>(&fwd, &Symbol::new(e, "sweep_tokens"), args);
                    let b = m.b(*token, 100);
                    let exp = cfg.permissioned && *by_manager && b > 0;
                    if exp {
                        st.hit("probe.fees_swept");
                        if !matches!(got, Ok(Ok(x)) if x == b) {
                            return Err(violation("charge.exact_fee_le_max", "sweep_return", i, format!("sweep returned {got:?}, the forwarder held {b}")));
                        }
                        m.bal.insert((*token, 100), 0);
                        *m.bal.entry((*token, *to)).or_insert(0) += b;
                    }
                    outcome = Some((matches!(got, Ok(Ok(_))), exp));
                }
                Step::CollectSelf { token, fee, max, eager } => {
                    kind = "collect_self";
                    tc[*token].mint(&collector, fee);
                    before = w.storage_digest(&[&toks[0], &toks[1], &tgt, &fwd]); // the funding itself is not part of the refused call
                    let held = tc[*token].balance(&collector);
                    let cl = CollectorClient::new(e, &collector);
                    let got = cl.try_collect(&toks[*token], fee, max, &(w.now() + 10), &collector, &a(3), eager).is_ok();
                    st.hit(if *eager { "probe.collect_fee_from_itself_eager" } else { "probe.collect_fee_from_itself_lazy" });
                    if tc[*token].balance(&collector) != held {
                        return Err(violation("charge.needs_user_auth_over_exact_call_and_bounds", "collect_self", i, format!("{s:?}: the collecting contract's own balance went {held} -> {}", tc[*token].balance(&collector))));
                    }
                    outcome = Some((got, false));
                }
                Step::ForwardSelf { token, fee, max } => {
                    kind = "forward_self";
                    let exp = w.now() + 10;
                    let t_args: Vec<Val> = (fwd.clone(), 7u32).into_val(e);
                    let full: Vec<Val> = (toks[*token].clone(), *fee, *max, exp, tgt.clone(), hit.clone(), t_args, fwd.clone(), a(1)).into_val(e);
                    w.set_auth(&[(1, Inv::new(&fwd, "forward", full.clone()))]);
                    let got = e.try_invoke_contract::<Val, soroban_sdk::Error>(&fwd, &Symbol::new(e, "forward"), full).map(|r| r.is_ok()).unwrap_or(false);
                    st.hit(if m.b(*token, 100) >= *fee { "probe.forward_as_forwarder_while_it_holds_fees" } else { "probe.forward_as_forwarder" });
                    outcome = Some((got, false));
                }
                Step::Forward { token, fee, max, exp_rel, arg, tamper, user_signs, relayer, relayer_signs } => {
                    kind = "forward";
                    let exp = (w.now() as i64 + exp_rel).max(0) as u32;
                    // what the user signed
                    let s_args: Vec<Val> = (a(0), *arg).into_val(e);
                    let signed: Vec<Val> = (toks[*token].clone(), *max, exp, tgt.clone(), hit.clone(), s_args.clone()).into_val(e);
                    // what the relayer submits
                    let (sub_tok, sub_max, sub_exp, sub_tgt, sub_arg) = match tamper {
                        Tamper::None => (*token, *max, exp, tgt.clone(), *arg),
                        Tamper::Target => (*token, *max, exp, tgt2.clone(), *arg),
                        Tamper::Args => (*token, *max, exp, tgt.clone(), arg + 1),
                        Tamper::Token => (1 - *token, *max, exp, tgt.clone(), *arg),
                        Tamper::Max => (*token, max + 1, exp, tgt.clone(), *arg),
                        Tamper::Exp => (*token, *max, exp + 1, tgt.clone(), *arg),
                    };
                    if *tamper != Tamper::None {
                        st.hit("fault.relayer_tampers");
                    }
                    let t_args: Vec<Val> = (a(0), sub_arg).into_val(e);
                    let mut entries = vec![];
                    if *user_signs {
                        // the user's tree: forward(custom args) → { token.approve(user, fwd, max, exp), target.hit(user, arg) }
                        entries.push((0usize, Inv::new(&fwd, "forward", signed).with(Inv::new(&toks[*token], "approve", (a(0), fwd.clone(), *max, exp).into_val(e))).with(Inv::new(&tgt, "hit", s_args))));
                    } else {
                        st.hit("fault.auth_missing");
                    }
                    let full: Vec<Val> = (toks[sub_tok].clone(), *fee, sub_max, sub_exp, sub_tgt.clone(), hit.clone(), t_args.clone(), a(0), a(*relayer)).into_val(e);
                    if *relayer_signs {
                        entries.push((*relayer, Inv::new(&fwd, "forward", full.clone())));
                    }
                    w.set_auth(&entries);
                    let got = e.try_invoke_contract::<Val, soroban_sdk::Error>(&fwd, &Symbol::new(e, "forward"), full).map(|r| r.is_ok()).unwrap_or(false);
                    if *max > 0 && m.al(*token) == *max {
                        st.hit(if *exp_rel < 0 { "probe.forward_expired_with_allowance_exactly_at_max" } else { "probe.forward_with_allowance_exactly_at_max" });
                    }
                    let expd = m.forward(cfg, s);
                    outcome = Some((got, expd));
                    if got {
                        if tg.last() != *arg {
                            return Err(violation("target.called_exactly_once", "args", i, format!("target saw {} instead of {arg}", tg.last())));
                        }
                    }
                }
            }
            if let Some((got, exp)) = outcome {
                st.tx(kind, got);
                if got != exp {
                    // a refusal whose only reason is the role / authorization of the operator or relayer (C06 as well as C19)
                    let role_reason = match s {
                        Step::Allow { by_manager, .. } | Step::Sweep { by_manager, .. } => !*by_manager,
                        Step::Forward { relayer, relayer_signs, .. } => cfg.permissioned && (*relayer != 1 || !*relayer_signs),
                        _ => false,
                    };
                    let check = match (kind, got) {
                        (_, true) if role_reason => "roles.manager_or_executor_only",
                        ("forward" | "forward_self" | "collect_self", true) => "charge.needs_user_auth_over_exact_call_and_bounds",
                        (_, true) => "refine.must_fail",
                        (_, false) => "live.must_succeed",
                    };
                    return Err(violation(check, kind, i, format!("{s:?}: real {got} model {exp}; now {} model {m:?}", w.now())));
                }
                if !got && w.storage_digest(&[&toks[0], &toks[1], &tgt, &fwd]) != before {
                    return Err(violation("atomic.nothing_persists_on_failure", kind, i, format!("state changed by failed {s:?}")));
                }
            }
            // balances, allowance, target log
            for t in 0..2 {
                for (h, addr) in [(0usize, a(0)), (1, a(1)), (3, a(3)), (100, fwd.clone())] {
                    let b = tc[t].balance(&addr);
                    if b != m.b(t, h) {
                        return Err(violation("charge.exact_fee_le_max", kind, i, format!("token {t} holder {h}: balance {b}, model {} after {s:?}", m.b(t, h))));
                    }
                }
                let al = tc[t].allowance(&a(0), &fwd);
                if al != m.al(t) {
                    return Err(violation("allowance.model_eq", kind, i, format!("token {t}: allowance {al}, model {} after {s:?}", m.al(t))));
                }
            }
            if tg.count() != m.hits {
                return Err(violation("target.called_exactly_once", kind, i, format!("target count {} model {}", tg.count(), m.hits)));
            }
            if cfg.permissioned {
                // allow-list: flags and stored enumeration
                let (count, listed): (u32, std::vec::Vec<Address>) = e.as_contract(&fwd, || {
                    let c: u32 = e.storage().instance().get(&FeeAbstractionStorageKey::Count).unwrap_or(0);
                    let v = (0..c).filter_map(|k| e.storage().persistent().get::<_, Address>(&FeeAbstractionStorageKey::Token(k))).collect();
                    (c, v)
                });
                if listed.len() != count as usize {
                    return Err(violation("allowlist.enum_gap_free", kind, i, format!("Count = {count} but only {} of the slots 0..Count hold a token after {s:?}", listed.len())));
                }
                // reverse mapping: the token stored at slot k maps back to k
                for (k, t) in listed.iter().enumerate() {
                    let back: Option<u32> = e.as_contract(&fwd, || e.storage().persistent().get(&FeeAbstractionStorageKey::TokenIndex(t.clone())));
                    if back != Some(k as u32) {
                        return Err(violation("allowlist.enum_gap_free", "reverse_index", i, format!("slot {k} holds a token whose TokenIndex is {back:?} after {s:?}")));
                    }
                }
                let want: BTreeSet<Address> = m.allowed.iter().map(|t| toks[*t].clone()).collect();
                let have: BTreeSet<Address> = listed.iter().cloned().collect();
                if count as usize != want.len() || have != want || have.len() != listed.len() {
                    return Err(violation("allowlist.enum_gap_free", kind, i, format!("count {count}, listed {}, model {:?}", listed.len(), m.allowed)));
                }
                let enabled = e.as_contract(&fwd, || stellar_fee_abstraction::is_fee_token_allowlist_enabled(e));
                if enabled != !m.allowed.is_empty() {
                    return Err(violation("allowlist.model_eq", "enabled", i, format!("is_fee_token_allowlist_enabled = {enabled}, model list {:?}", m.allowed)));
                }
                for t in 0..4 {
                    let flag = e.as_contract(&fwd, || stellar_fee_abstraction::is_allowed_fee_token(e, &toks[t]));
                    if flag != (m.allowed.is_empty() || m.allowed.contains(&t)) {
                        return Err(violation("allowlist.model_eq", kind, i, format!("is_allowed_fee_token({t}) = {flag}, model {:?}", m.allowed)));
                    }
                }
            }
            let fwd_class = match s { Step::Forward { fee, max, exp_rel, tamper, user_signs, relayer_signs, .. } => Some(((*fee).cmp(max) as i8, (*fee).signum() as i8, (*exp_rel).signum() as i8, *tamper as u8, *user_signs, *relayer_signs)), _ => None };
            st.state(&(kind, cfg.permissioned, m.allowed.len(), m.trap, m.allow.values().filter(|v| v.0 > 0 && v.1 >= m.now).count(), fwd_class));
        }
        Ok(())
    }
}
