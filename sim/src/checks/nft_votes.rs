//! C13 (NFT flavour): voting units equal the number of tokens held; power follows delegation; history exact.

use crate::core::*;
use crate::world::{Base as W, Inv};
use serde::{Deserialize, Serialize};
#[allow(unused_imports)]
use soroban_sdk::{contract, contractimpl, Address, Env, IntoVal, String as SString};
use std::collections::BTreeMap;
use stellar_governance::votes::{self, Votes};
use stellar_tokens::non_fungible::{burnable::NonFungibleBurnable, votes::NonFungibleVotes, NonFungibleToken};

#[contract]
pub struct VNft;
#[contractimpl]
impl VNft {
    pub fn mint(e: &Env, to: Address) -> u32 {
        NonFungibleVotes::sequential_mint(e, &to)
    }
    /// explicit-id mint of the votes flavour (ids from 1 000 000 up never meet the sequential ones here)
    pub fn mint_id(e: &Env, to: Address, id: u32) {
        NonFungibleVotes::mint(e, &to, id)
    }
    pub fn voting_units(e: &Env, a: Address) -> u128 {
        votes::get_voting_units(e, &a)
    }
}
#[contractimpl(contracttrait)]
impl NonFungibleToken for VNft {
    type ContractType = NonFungibleVotes;
}
#[contractimpl(contracttrait)]
impl NonFungibleBurnable for VNft {}
#[contractimpl(contracttrait)]
impl Votes for VNft {}

#[derive(Clone, Debug, Serialize, Deserialize)]
pub enum Step {
    Mint { to: usize },
    /// NonFungibleVotes::mint with an explicit id (1 000 000 + id); skipped if that id exists
    MintId { to: usize, id: u32 },
    Transfer { from: usize, to: usize, id: u32 },
    Burn { from: usize, id: u32 },
    /// operator approval (for all tokens of `owner`), valid up to the host maximum
    ApproveAll { owner: usize, operator: usize },
    TransferFrom { spender: usize, from: usize, to: usize, id: u32 },
    BurnFrom { spender: usize, from: usize, id: u32 },
    Delegate { who: usize, to: usize },
    Advance { n: u32 },
}
#[derive(Clone, Debug, Serialize, Deserialize)]
pub struct Cfg { pub actors: usize, pub start_ledger: u32 }

#[derive(Clone, Debug, Default)]
struct Model { ops: std::collections::BTreeSet<(usize, usize)>, owner: BTreeMap<u32, usize>, next: u32, del: BTreeMap<usize, usize>, now: u32, tl: BTreeMap<usize, BTreeMap<u32, u128>>, stl: BTreeMap<u32, u128> }
impl Model {
    fn units(&self, a: usize) -> u128 { self.owner.values().filter(|o| **o == a).count() as u128 }
    fn votes(&self, a: usize) -> u128 { self.del.iter().filter(|(_, d)| **d == a).map(|(w, _)| self.units(*w)).sum() }
    fn record(&mut self, n: usize) { for a in 0..n { let v = self.votes(a); self.tl.entry(a).or_default().insert(self.now, v); } let s = self.owner.len() as u128; self.stl.insert(self.now, s); }
    fn at(tl: &BTreeMap<u32, u128>, l: u32) -> u128 { tl.range(..=l).next_back().map(|(_, v)| *v).unwrap_or(0) }
    fn apply(&mut self, s: &Step) -> bool {
        match *s {
            Step::Advance { n } => { self.now += n; true }
            Step::Mint { to } => { self.owner.insert(self.next, to); self.next += 1; true }
            // an explicit mint of an id that exists is never submitted (the library leaves the uniqueness of explicit ids to the
            // integrator): the step is skipped
            Step::MintId { to, id } => { if !self.owner.contains_key(&(1_000_000 + id)) { self.owner.insert(1_000_000 + id, to); } true }
            Step::Transfer { from, to, id } => { if self.owner.get(&id) != Some(&from) { return false; } self.owner.insert(id, to); true }
            Step::Burn { from, id } => { if self.owner.get(&id) != Some(&from) { return false; } self.owner.remove(&id); true }
            Step::ApproveAll { owner, operator } => { self.ops.insert((owner, operator)); true }
            Step::TransferFrom { spender, from, to, id } => { if self.owner.get(&id) != Some(&from) || !(spender == from || self.ops.contains(&(from, spender))) { return false; } self.owner.insert(id, to); true }
            Step::BurnFrom { spender, from, id } => { if self.owner.get(&id) != Some(&from) || !(spender == from || self.ops.contains(&(from, spender))) { return false; } self.owner.remove(&id); true }
            Step::Delegate { who, to } => { if self.del.get(&who) == Some(&to) { return false; } self.del.insert(who, to); true }
        }
    }
}
pub struct NftVotes;
impl Check for NftVotes {
    type Cfg = Cfg;
    type Step = Step;
    fn id(&self) -> &'static str { "nft_votes" }
    fn runs(&self, tier: Tier) -> u64 {
        if tier == Tier::Quick {
            1200
        } else {
            30000
        }
    }
    fn components(&self) -> serde_json::Value { serde_json::json!({"real": ["non_fungible::votes::NonFungibleVotes", "governance::votes::*", "NFT Base + sequential ids"], "stub": ["Wallet"]}) }
    fn clock_step(&self, n: u32) -> Option<Step> {
        Some(Step::Advance { n })
    }
    fn clock_budget(&self) -> u64 {
        // operator approvals are given up to the host maximum (about 6.3 M ledgers) and not modelled as expiring
        6_000_000
    }
    fn generate(&self, rng: &mut Rng, tier: Tier) -> (Cfg, std::vec::Vec<Step>) {
        let cfg = Cfg { actors: 3 + rng.below(2) as usize, start_ledger: 1 + rng.below(50_000) as u32 };
        let n = cfg.actors as u64;
        let nsteps = if tier == Tier::Quick { 25 + rng.below(35) } else { 25 + rng.below(80) } as usize;
        let mut m = Model { now: cfg.start_ledger, ..Default::default() };
        let mut steps = vec![];
        for _ in 0..nsteps {
            let ids: std::vec::Vec<u32> = m.owner.keys().cloned().collect();
            let s = match rng.below(100) {
                0..=19 => Step::Mint { to: rng.below(n) as usize },
                20..=24 => Step::MintId { to: rng.below(n) as usize, id: rng.below(6) as u32 },
                25..=49 => { let id = if ids.is_empty() || rng.chance(10) { rng.below(m.next as u64 + 2) as u32 } else { *rng.pick(&ids) }; let from = *m.owner.get(&id).unwrap_or(&0); Step::Transfer { from: if rng.chance(92) { from } else { rng.below(n) as usize }, to: if rng.chance(10) { from } else { rng.below(n) as usize }, id } }
                50..=59 => { let id = if ids.is_empty() || rng.chance(10) { rng.below(m.next as u64 + 2) as u32 } else { *rng.pick(&ids) }; Step::Burn { from: *m.owner.get(&id).unwrap_or(&0), id } }
                60..=64 => Step::ApproveAll { owner: rng.below(n) as usize, operator: rng.below(n) as usize },
                65..=71 => {
                    let id = if ids.is_empty() || rng.chance(10) { rng.below(m.next as u64 + 2) as u32 } else { *rng.pick(&ids) };
                    let from = *m.owner.get(&id).unwrap_or(&0);
                    let spender = m.ops.iter().find(|k| k.0 == from).map(|k| k.1).filter(|_| !rng.chance(20)).unwrap_or_else(|| rng.below(n) as usize);
                    if rng.chance(50) { Step::TransferFrom { spender, from, to: rng.below(n) as usize, id } } else { Step::BurnFrom { spender, from, id } }
                }
                72..=83 => { let who = rng.below(n) as usize; Step::Delegate { who, to: if rng.chance(20) { who } else { rng.below(n) as usize } } }
                _ => Step::Advance { n: if rng.chance(45) { rng.below(2) as u32 } else { 1 + rng.below(6) as u32 } },
            };
            m.apply(&s);
            steps.push(s);
        }
        (cfg, steps)
    }
    fn dup_ok(&self, _s: &Step) -> bool {
        true
    }
    fn reorder_ok(&self) -> bool {
        true
    }
    fn execute(&self, cfg: &Cfg, steps: &[Step], st: &mut Stats) -> Result<(), Violation> {
        let w = W::new(cfg.actors, cfg.start_ledger, 16);
        let e = &w.e;
        let id = e.register(VNft, ());
        let c = VNftClient::new(e, &id);
        let a = |i: usize| w.actors[i].clone();
        let mut m = Model { now: cfg.start_ledger, ..Default::default() };
        let mut touched: std::vec::Vec<u32> = vec![];
        for (i, s) in steps.iter().enumerate() {
            let (kind, got) = match s {
                Step::Advance { n } => { m.record(cfg.actors); w.advance(*n); st.ledgers += *n as u64; st.hit("clock.advance"); if *n > 100_000 { st.hit("clock.jump"); } ("advance", true) }
                Step::Mint { to } => { w.set_auth(&[]); ("mint", c.try_mint(&a(*to)).is_ok()) }
                Step::MintId { to, id } => {
                    w.set_auth(&[]);
                    if m.owner.contains_key(&(1_000_000 + id)) { ("mint_id_skipped", true) } else { ("mint_id", c.try_mint_id(&a(*to), &(1_000_000 + id)).is_ok()) }
                }
                Step::Transfer { from, to, id: t } => { w.set_auth(&[(*from, Inv::new(&id, "transfer", (a(*from), a(*to), *t).into_val(e)))]); ("transfer", c.try_transfer(&a(*from), &a(*to), t).is_ok()) }
                Step::Burn { from, id: t } => { w.set_auth(&[(*from, Inv::new(&id, "burn", (a(*from), *t).into_val(e)))]); ("burn", c.try_burn(&a(*from), t).is_ok()) }
                Step::ApproveAll { owner, operator } => { let live = e.ledger().max_live_until_ledger(); w.set_auth(&[(*owner, Inv::new(&id, "approve_for_all", (a(*owner), a(*operator), live).into_val(e)))]); ("approve_for_all", c.try_approve_for_all(&a(*owner), &a(*operator), &live).is_ok()) }
                Step::TransferFrom { spender, from, to, id: t } => { w.set_auth(&[(*spender, Inv::new(&id, "transfer_from", (a(*spender), a(*from), a(*to), *t).into_val(e)))]); ("transfer_from", c.try_transfer_from(&a(*spender), &a(*from), &a(*to), t).is_ok()) }
                Step::BurnFrom { spender, from, id: t } => { w.set_auth(&[(*spender, Inv::new(&id, "burn_from", (a(*spender), a(*from), *t).into_val(e)))]); ("burn_from", c.try_burn_from(&a(*spender), &a(*from), t).is_ok()) }
                Step::Delegate { who, to } => { w.set_auth(&[(*who, Inv::new(&id, "delegate", (a(*who), a(*to)).into_val(e)))]); ("delegate", c.try_delegate(&a(*who), &a(*to)).is_ok()) }
            };
            let exp = m.apply(s);
            if kind != "advance" { st.tx(kind, got); if got && touched.last() != Some(&m.now) { touched.push(m.now); } }
            if got != exp { return Err(violation(if got { "refine.must_fail" } else { "live.must_succeed" }, kind, i, format!("{s:?}: real {got} model {exp}"))); }
            let mut sum = 0u128;
            for x in 0..cfg.actors {
                if c.get_votes(&a(x)) != m.votes(x) { return Err(violation("votes.eq_sum_delegators", kind, i, format!("actor {x}: {} vs {}", c.get_votes(&a(x)), m.votes(x)))); }
                let u = c.voting_units(&a(x));
                if u != c.balance(&a(x)) as u128 || u != m.units(x) { return Err(violation("units.eq_balance", kind, i, format!("actor {x}: units {u} balance {} model {}", c.balance(&a(x)), m.units(x)))); }
                sum += u;
            }
            if c.get_total_supply() != sum { return Err(violation("supply.eq_sum_units", kind, i, format!("{} vs {sum}", c.get_total_supply()))); }
            let now = w.now();
            let mut qs = vec![0, now.saturating_sub(1)];
            for t in touched.iter().rev().take(5) { qs.extend([t.saturating_sub(1), *t, t + 1]); }
            qs.sort(); qs.dedup();
            for q in qs.into_iter().filter(|q| *q < now) {
                for x in 0..cfg.actors {
                    let want = m.tl.get(&x).map(|tl| Model::at(tl, q)).unwrap_or(0);
                    if c.try_get_votes_at_checkpoint(&a(x), &q) != Ok(Ok(want)) { return Err(violation("past.eq_timeline", "votes", i, format!("actor {x} ledger {q}: want {want}"))); }
                }
                if c.try_get_total_supply_at_checkpoint(&q) != Ok(Ok(Model::at(&m.stl, q))) { return Err(violation("past.eq_timeline", "supply", i, format!("ledger {q}"))); }
            }
            if c.try_get_votes_at_checkpoint(&a(0), &now).is_ok() { return Err(violation("future.refused", "query", i, "current ledger answered".into())); }
            st.state(&(m.del.clone(), m.owner.len().min(20)));
        }
        // end of run: the whole past (every touched ledger and its neighbours)
        let now = w.now();
        let mut qs = vec![0, cfg.start_ledger];
        for t in touched.iter() { qs.extend([t.saturating_sub(1), *t, t + 1]); }
        qs.sort(); qs.dedup();
        for q in qs.into_iter().filter(|q| *q < now) {
            for x in 0..cfg.actors {
                let want = m.tl.get(&x).map(|tl| Model::at(tl, q)).unwrap_or(0);
                if c.try_get_votes_at_checkpoint(&a(x), &q) != Ok(Ok(want)) { return Err(violation("past.eq_timeline", "votes_sweep", steps.len(), format!("actor {x} ledger {q}: want {want}"))); }
            }
            if c.try_get_total_supply_at_checkpoint(&q) != Ok(Ok(Model::at(&m.stl, q))) { return Err(violation("past.eq_timeline", "supply_sweep", steps.len(), format!("ledger {q}"))); }
        }
        Ok(())
    }
}
