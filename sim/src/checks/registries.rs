//! C20 (four of the registries): document manager, token binder, claim topics & issuers, claim-issuer keys.

use crate::core::*;
use crate::world::Base as W;
use serde::{Deserialize, Serialize};
use soroban_sdk::{contract, contractimpl, testutils::Address as _, Address, Bytes, BytesN, Env, Map, String as SString, Vec};
use std::collections::{BTreeMap, BTreeSet};
use stellar_tokens::rwa::{
    claim_issuer as ci, claim_topics_and_issuers::storage as cti,
    extensions::doc_manager::{self as dm, Document},
    utils::token_binder as tb,
};

#[contract]
pub struct Docs;
#[contractimpl]
impl Docs {
    pub fn set(e: &Env, name: BytesN<32>, uri: SString, hash: BytesN<32>) {
        dm::set_document(e, &name, &uri, &hash)
    }
    pub fn remove(e: &Env, name: BytesN<32>) {
        dm::remove_document(e, &name)
    }
    pub fn get(e: &Env, name: BytesN<32>) -> Document {
        dm::get_document(e, &name)
    }
    pub fn by_index(e: &Env, i: u32) -> (BytesN<32>, Document) {
        dm::get_document_by_index(e, i)
    }
    pub fn bucket(e: &Env, b: u32) -> Vec<(BytesN<32>, Document)> {
        dm::get_documents(e, b)
    }
    pub fn count(e: &Env) -> u32 {
        dm::get_document_count(e)
    }
}

#[contract]
pub struct Binder;
#[contractimpl]
impl Binder {
    pub fn bind(e: &Env, t: Address) {
        tb::bind_token(e, &t)
    }
    pub fn bind_many(e: &Env, ts: Vec<Address>) {
        tb::bind_tokens(e, &ts)
    }
    pub fn unbind(e: &Env, t: Address) {
        tb::unbind_token(e, &t)
    }
    pub fn count(e: &Env) -> u32 {
        tb::linked_tokens(e).len()
    }
    pub fn by_index(e: &Env, i: u32) -> Address {
        tb::get_token_by_index(e, i)
    }
    pub fn index_of(e: &Env, t: Address) -> u32 {
        tb::get_token_index(e, &t)
    }
    pub fn is_bound(e: &Env, t: Address) -> bool {
        tb::is_token_bound(e, &t)
    }
    pub fn all(e: &Env) -> Vec<Address> {
        tb::linked_tokens(e)
    }
}

#[contract]
pub struct Cti;
#[contractimpl]
impl Cti {
    pub fn add_topic(e: &Env, t: u32) {
        cti::add_claim_topic(e, t)
    }
    pub fn remove_topic(e: &Env, t: u32) {
        cti::remove_claim_topic(e, t)
    }
    pub fn add_issuer(e: &Env, i: Address, ts: Vec<u32>) {
        cti::add_trusted_issuer(e, &i, &ts)
    }
    pub fn remove_issuer(e: &Env, i: Address) {
        cti::remove_trusted_issuer(e, &i)
    }
    pub fn update_issuer(e: &Env, i: Address, ts: Vec<u32>) {
        cti::update_issuer_claim_topics(e, &i, &ts)
    }
    pub fn topics(e: &Env) -> Vec<u32> {
        cti::get_claim_topics(e)
    }
    pub fn issuers(e: &Env) -> Vec<Address> {
        cti::get_trusted_issuers(e)
    }
    pub fn topic_issuers(e: &Env, t: u32) -> Vec<Address> {
        cti::get_claim_topic_issuers(e, t)
    }
    pub fn issuer_topics(e: &Env, i: Address) -> Vec<u32> {
        cti::get_trusted_issuer_claim_topics(e, &i)
    }
    pub fn both(e: &Env) -> Map<u32, Vec<Address>> {
        cti::get_claim_topics_and_issuers(e)
    }
    pub fn is_trusted(e: &Env, i: Address) -> bool {
        cti::is_trusted_issuer(e, &i)
    }
    pub fn has_claim_topic(e: &Env, i: Address, t: u32) -> bool {
        cti::has_claim_topic(e, &i, t)
    }
}

/// registry stand-in for the key registry: every topic is allowed for the issuer
#[contract]
pub struct YesRegistry;
#[contractimpl]
impl YesRegistry {
    pub fn has_claim_topic(_e: &Env, _issuer: Address, _topic: u32) -> bool {
        true
    }
}
#[contract]
pub struct Keys;
#[contractimpl]
impl Keys {
    pub fn allow(e: &Env, pk: Bytes, registry: Address, scheme: u32, topic: u32) {
        ci::allow_key(e, &pk, &registry, scheme, topic)
    }
    pub fn remove(e: &Env, pk: Bytes, registry: Address, scheme: u32, topic: u32) {
        ci::remove_key(e, &pk, &registry, scheme, topic)
    }
    pub fn keys_for_topic(e: &Env, topic: u32) -> Vec<ci::SigningKey> {
        ci::get_keys_for_topic(e, topic)
    }
    pub fn registries(e: &Env, pk: Bytes, scheme: u32) -> Vec<Address> {
        ci::get_registries(e, &ci::SigningKey { public_key: pk, scheme })
    }
    pub fn allowed_topic(e: &Env, pk: Bytes, scheme: u32, topic: u32) -> bool {
        ci::is_key_allowed_for_topic(e, &pk, scheme, topic)
    }
    pub fn allowed_registry(e: &Env, pk: Bytes, scheme: u32, registry: Address) -> bool {
        ci::is_key_allowed_for_registry(e, &pk, scheme, &registry)
    }
}

#[derive(Clone, Copy, Debug, Serialize, Deserialize, PartialEq)]
pub enum Kind {
    Docs,
    Binder,
    Cti,
    Keys,
}
#[derive(Clone, Debug, Serialize, Deserialize)]
pub enum Step {
    /// the clock (inserted by the core's clock faults)
    Wait { n: u32 },
    DocSet { name: u32, ver: u32 },
    DocRemove { name: u32 },
    Bind { t: u32 },
    BindMany { ts: std::vec::Vec<u32> },
    Unbind { t: u32 },
    AddTopic { t: u32 },
    RemoveTopic { t: u32 },
    AddIssuer { i: u32, ts: std::vec::Vec<u32> },
    RemoveIssuer { i: u32 },
    UpdateIssuer { i: u32, ts: std::vec::Vec<u32> },
    AllowKey { key: u32, topic: u32, reg: u32 },
    RemoveKey { key: u32, topic: u32, reg: u32 },
}
#[derive(Clone, Debug, Serialize, Deserialize)]
pub struct Cfg {
    pub kind: Kind,
    pub universe: u32,
}

pub struct Registries;

fn valid_topics(ts: &[u32], topics: &BTreeSet<u32>) -> bool {
    !ts.is_empty() && ts.len() <= 15 && ts.iter().collect::<BTreeSet<_>>().len() == ts.len() && ts.iter().all(|t| topics.contains(t))
}

impl Check for Registries {
    type Cfg = Cfg;
    type Step = Step;
    fn id(&self) -> &'static str {
        "registries"
    }
    fn runs(&self, tier: Tier) -> u64 {
        if tier == Tier::Quick {
            800
        } else {
            10000
        }
    }
    fn components(&self) -> serde_json::Value {
        serde_json::json!({"real": ["rwa::extensions::doc_manager", "rwa::utils::token_binder", "rwa::claim_topics_and_issuers::storage", "rwa::claim_issuer::{allow_key, remove_key, getters}"], "stub": ["YesRegistry (has_claim_topic = true) for the key registry only"]})
    }
    fn clock_step(&self, n: u32) -> Option<Step> {
        Some(Step::Wait { n })
    }
    fn dup_ok(&self, _s: &Step) -> bool {
        true
    }
    fn reorder_ok(&self) -> bool {
        true
    }
    fn probes(&self, _prop: &str) -> std::vec::Vec<&'static str> {
        vec!["probe.bucket_boundary_crossed", "probe.issuer_limit_reached", "probe.registry_limit_reached", "probe.topic_limit_reached", "probe.keys_per_topic_limit_reached", "probe.full_topic_existing_key_again"]
    }
    fn generate(&self, rng: &mut Rng, tier: Tier) -> (Cfg, std::vec::Vec<Step>) {
        let kind = *rng.pick(&[Kind::Docs, Kind::Binder, Kind::Cti, Kind::Keys]);
        let big = rng.chance(30);
        let universe = match kind {
            Kind::Docs => if big { 130 } else { 6 },
            Kind::Binder => if big { 260 } else { 6 },
            Kind::Cti => if big { 60 } else { 5 },
            Kind::Keys => 3,
        };
        let cfg = Cfg { kind, universe };
        let nsteps = match (kind, big) { (Kind::Docs | Kind::Binder, true) => 200 + rng.below(250), (Kind::Cti, true) => 120 + rng.below(80), (Kind::Keys, _) => 40 + rng.below(60), _ => 30 + rng.below(if tier == Tier::Quick { 40 } else { 90 }) } as usize;
        let add_bias = if big { 72 } else { 55 };
        let mut steps = vec![];
        let mut present: BTreeSet<u32> = BTreeSet::new(); // generator's own view (docs / tokens / issuers)
        let mut topics: BTreeSet<u32> = BTreeSet::new();
        let mut triples: BTreeSet<(u32, u32, u32)> = BTreeSet::new();
        let focus_key = rng.below(3) as u32;
        // capacity scenario for the token binder (rare, expensive): fill to MAX_TOKENS = 10 000 through the batch path, reach the
        // limit once through the single path and once — exactly — through the batch path, with refusals one past it
        // (thorough tier only: in the test host one such history takes about two minutes and 13 GB — the cost grows faster than
        // quadratically with the number of bound tokens — so the quick tier leaves it out and the thorough tier expects two)
        if tier == Tier::Thorough && kind == Kind::Binder && big && rng.below(375) == 0 {
            let cfg = Cfg { kind, universe: 10_100 };
            let mut steps = vec![];
            let mut next = 0u32;
            let mut batch = |n: u32, next: &mut u32| { let ts: std::vec::Vec<u32> = (*next..*next + n).collect(); *next += n; Step::BindMany { ts } };
            for _ in 0..49 { steps.push(batch(200, &mut next)); }
            steps.push(batch(199, &mut next));                 // 9 999
            steps.push(Step::Bind { t: 10_050 });              // 10 000 through the single path
            steps.push(Step::Bind { t: 10_051 });              // refused
            steps.push(batch(1, &mut next));                   // refused
            steps.push(Step::Unbind { t: 3 + rng.below(9_000) as u32 });
            steps.push(Step::Unbind { t: 10_050 });
            steps.push(batch(3, &mut next));                   // 10 001: refused
            next -= 3;
            steps.push(batch(2, &mut next));                   // exactly 10 000 through the batch path: must be admitted
            steps.push(batch(1, &mut next));                   // refused
            steps.push(Step::Unbind { t: 7 });
            steps.push(Step::Bind { t: 10_052 });
            return (cfg, steps);
        }
        // limit scenario for the trusted-issuer registry (a quarter of its big runs): MAX_ISSUERS issuers, one more refused,
        // one removed, another admitted
        if kind == Kind::Cti && big && rng.chance(25) {
            steps.push(Step::AddTopic { t: 0 });
            topics.insert(0);
            for i in 0..50u32 {
                steps.push(Step::AddIssuer { i, ts: vec![0] });
                present.insert(i);
            }
            steps.push(Step::AddIssuer { i: 50, ts: vec![0] });
            let gone = rng.below(50) as u32;
            steps.push(Step::RemoveIssuer { i: gone });
            present.remove(&gone);
            steps.push(Step::AddIssuer { i: 51, ts: vec![0] });
            present.insert(51);
            steps.push(Step::AddIssuer { i: 52, ts: vec![0] });
        }
        // limit scenario for the keys registry (a fifth of its runs): one topic filled to MAX_KEYS_PER_TOPIC distinct keys,
        // one more refused, then keys that are already in the full topic allowed for further registries (must succeed),
        // one removed and a new one admitted
        if kind == Kind::Keys && rng.chance(20) {
            let t = rng.below(5) as u32;
            for j in 0..50u32 {
                steps.push(Step::AllowKey { key: 10 + j, topic: t, reg: 0 });
                triples.insert((10 + j, t, 0));
            }
            steps.push(Step::AllowKey { key: 60, topic: t, reg: 0 });
            for _ in 0..3 {
                steps.push(Step::AllowKey { key: 10 + rng.below(50) as u32, topic: t, reg: 1 + rng.below(4) as u32 });
            }
            let gone = 10 + rng.below(50) as u32;
            steps.push(Step::RemoveKey { key: gone, topic: t, reg: 0 });
            steps.push(Step::AllowKey { key: 61, topic: t, reg: 2 });
            steps.push(Step::AllowKey { key: 62, topic: t, reg: 2 });
        }
        for _ in 0..nsteps {
            let pick_present = |rng: &mut Rng, p: &BTreeSet<u32>, u: u32| -> u32 {
                if p.is_empty() || rng.chance(12) { rng.below(u as u64) as u32 } else {
                    let v: std::vec::Vec<u32> = p.iter().cloned().collect();
                    match rng.below(4) { 0 => v[0], 1 => v[v.len() - 1], _ => *rng.pick(&v) }
                }
            };
            let s = match kind {
                Kind::Docs => {
                    if rng.chance(add_bias) {
                        let name = rng.below(universe as u64) as u32;
                        present.insert(name);
                        Step::DocSet { name, ver: rng.below(1000) as u32 }
                    } else {
                        let name = pick_present(rng, &present, universe);
                        present.remove(&name);
                        Step::DocRemove { name }
                    }
                }
                Kind::Binder => match rng.below(100) {
                    x if x < add_bias - 15 => {
                        let t = rng.below(universe as u64) as u32;
                        present.insert(t);
                        Step::Bind { t }
                    }
                    x if x < add_bias => {
                        let n = match rng.below(4) { 0 => 0, 1 => 201, _ => 1 + rng.below(if big { 120 } else { 4 }) } as usize;
                        let mut ts = vec![];
                        for _ in 0..n {
                            let t = if n > 200 { ts.len() as u32 + 1000 } else { rng.below(universe as u64) as u32 };
                            ts.push(t);
                        }
                        let ok = n <= 200 && ts.iter().collect::<BTreeSet<_>>().len() == ts.len() && ts.iter().all(|t| !present.contains(t));
                        if ok { present.extend(ts.iter().cloned()); }
                        Step::BindMany { ts }
                    }
                    _ => {
                        let t = pick_present(rng, &present, universe);
                        present.remove(&t);
                        Step::Unbind { t }
                    }
                },
                Kind::Cti => match rng.below(100) {
                    0..=19 => {
                        let t = rng.below(18) as u32;
                        if topics.len() < 15 { topics.insert(t); }
                        Step::AddTopic { t }
                    }
                    20..=27 => {
                        let t = pick_present(rng, &topics, 18);
                        topics.remove(&t);
                        Step::RemoveTopic { t }
                    }
                    28..=62 => {
                        let i = rng.below(universe as u64) as u32;
                        let tv: std::vec::Vec<u32> = topics.iter().cloned().collect();
                        let mut ts: std::vec::Vec<u32> = (0..rng.below(4)).map(|_| if tv.is_empty() || rng.chance(8) { rng.below(18) as u32 } else { *rng.pick(&tv) }).collect();
                        if rng.chance(85) { ts.sort(); ts.dedup(); }
                        if valid_topics(&ts, &topics) && !present.contains(&i) && present.len() < 50 { present.insert(i); }
                        Step::AddIssuer { i, ts }
                    }
                    63..=77 => {
                        let i = pick_present(rng, &present, universe);
                        present.remove(&i);
                        Step::RemoveIssuer { i }
                    }
                    _ => {
                        let i = pick_present(rng, &present, universe);
                        let tv: std::vec::Vec<u32> = topics.iter().cloned().collect();
                        let mut ts: std::vec::Vec<u32> = (0..rng.below(4)).map(|_| if tv.is_empty() || rng.chance(8) { rng.below(18) as u32 } else { *rng.pick(&tv) }).collect();
                        if rng.chance(85) { ts.sort(); ts.dedup(); }
                        Step::UpdateIssuer { i, ts }
                    }
                },
                Kind::Keys => {
                    // a signing key is (public key bytes, scheme): key ids >= 1000 reuse the bytes of id - 1000 under another scheme
                    let key = match rng.below(10) { 0..=5 => focus_key, 6 => focus_key + 1000, 7 => 1000 + rng.below(3) as u32, _ => rng.below(3) as u32 };
                    if rng.chance(78) {
                        // aim at fresh (topic, registry) pairs for the focus key so that the per-key limit is reached
                        let mut cand = (rng.below(5) as u32, rng.below(5) as u32);
                        for _ in 0..6 {
                            if !triples.contains(&(key, cand.0, cand.1)) { break; }
                            cand = (rng.below(5) as u32, rng.below(5) as u32);
                        }
                        triples.insert((key, cand.0, cand.1));
                        Step::AllowKey { key, topic: cand.0, reg: cand.1 }
                    } else {
                        let mine: std::vec::Vec<(u32, u32, u32)> = triples.iter().filter(|t| t.0 == key).cloned().collect();
                        let t = if mine.is_empty() || rng.chance(15) { (key, rng.below(5) as u32, rng.below(5) as u32) } else { *rng.pick(&mine) };
                        triples.remove(&t);
                        Step::RemoveKey { key: t.0, topic: t.1, reg: t.2 }
                    }
                }
            };
            steps.push(s);
        }
        (cfg, steps)
    }

    fn execute(&self, cfg: &Cfg, steps: &[Step], st: &mut Stats) -> Result<(), Violation> {
        let w = W::new(1, 100, 16);
        let e = &w.e;
        match cfg.kind {
            Kind::Docs => {
                let id = e.register(Docs, ());
                let c = DocsClient::new(e, &id);
                let name = |n: u32| BytesN::<32>::from_array(e, &{ let mut b = [0u8; 32]; b[..4].copy_from_slice(&n.to_be_bytes()); b });
                let mut m: BTreeMap<u32, u32> = BTreeMap::new();
                for (i, s) in steps.iter().enumerate() {
                    if let Step::Wait { n } = s {
                        w.advance(*n);
                        st.ledgers += *n as u64;
                        st.hit("clock.advance");
                        continue;
                    }
                    let before = w.storage_digest(&[&id]);
                    let (kind, got, exp) = match s {
                        Step::DocSet { name: n, ver } => {
                            let uri = SString::from_str(e, &format!("https://d/{n}/{ver}"));
                            let g = c.try_set(&name(*n), &uri, &name(*ver + 7)).is_ok();
                            let x = m.contains_key(n) || m.len() < 5000;
                            if g { m.insert(*n, *ver); }
                            ("set_document", g, x)
                        }
                        Step::DocRemove { name: n } => {
                            let g = c.try_remove(&name(*n)).is_ok();
                            let x = m.remove(n).is_some();
                            ("remove_document", g, x)
                        }
                        _ => unreachable!(),
                    };
                    st.tx(kind, got);
                    if got != exp {
                        return Err(violation("docs.dup_or_absent_refused", kind, i, format!("{s:?}: real {got} model {exp}")));
                    }
                    if !got && w.storage_digest(&[&id]) != before {
                        return Err(violation("fail.no_trace", kind, i, format!("{s:?}")));
                    }
                    let cnt = c.count();
                    if cnt as usize != m.len() {
                        return Err(violation("docs.getters_eq_model", "count", i, format!("count {cnt} model {}", m.len())));
                    }
                    if cnt > 50 { st.hit("probe.bucket_boundary_crossed"); }
                    let mut seen = BTreeSet::new();
                    let full = i % 7 == 0 || cnt <= 12 || i + 1 == steps.len();
                    let idxs: BTreeSet<u32> = if full { (0..cnt).collect() } else { [0, cnt.saturating_sub(1), 49.min(cnt.saturating_sub(1)), 50.min(cnt.saturating_sub(1))].into_iter().filter(|k| *k < cnt).collect() };
                    for k in idxs {
                        let (nm, d) = c.by_index(&k);
                        let n = u32::from_be_bytes(nm.to_array()[..4].try_into().unwrap());
                        let Some(ver) = m.get(&n) else { return Err(violation("docs.enum_each_once", "by_index", i, format!("index {k} holds unknown name {n}"))) };
                        if !seen.insert(n) || d.document_hash != name(*ver + 7) || c.get(&nm) != d {
                            return Err(violation("docs.enum_each_once", "by_index", i, format!("index {k}: name {n} repeated or stale")));
                        }
                    }
                    if full {
                        if seen.len() != m.len() {
                            return Err(violation("docs.enum_each_once", "by_index", i, "enumeration does not cover the map".into()));
                        }
                        let mut viab = 0;
                        for b in 0..=(cnt / 50) { viab += c.bucket(&b).len(); }
                        if viab != cnt {
                            return Err(violation("docs.getters_eq_model", "buckets", i, format!("buckets hold {viab}, count {cnt}")));
                        }
                    }
                    if c.try_by_index(&cnt).is_ok() {
                        return Err(violation("docs.enum_each_once", "past_end", i, "index == count answers".into()));
                    }
                    st.state(&(cnt.min(60), kind));
                }
            }
            Kind::Binder => {
                let id = e.register(Binder, ());
                let c = BinderClient::new(e, &id);
                let toks: std::vec::Vec<Address> = (0..cfg.universe.max(6) + 1300).map(|_| Address::generate(e)).collect();
                let t = |k: u32| toks[(k as usize) % toks.len()].clone();
                let mut m: BTreeSet<u32> = BTreeSet::new();
                for (i, s) in steps.iter().enumerate() {
                    if let Step::Wait { n } = s {
                        w.advance(*n);
                        st.ledgers += *n as u64;
                        st.hit("clock.advance");
                        continue;
                    }
                    // with thousands of bound tokens (capacity scenario) the full-set observations are made at the last steps only:
                    // every linked_tokens() call materialises the whole list in the host, which costs seconds and gigabytes per run
                    let heavy = m.len() > 2000 && i + 4 < steps.len();
                    let before = if heavy { 0 } else { w.storage_digest(&[&id]) };
                    let (kind, got, exp) = match s {
                        Step::Bind { t: k } => {
                            let g = c.try_bind(&t(*k)).is_ok();
                            let x = !m.contains(k) && m.len() < 10_000;
                            if x { m.insert(*k); }
                            ("bind_token", g, x)
                        }
                        Step::BindMany { ts } => {
                            let v: Vec<Address> = Vec::from_iter(e, ts.iter().map(|k| t(*k)));
                            let g = c.try_bind_many(&v).is_ok();
                            let uniq = ts.iter().collect::<BTreeSet<_>>().len() == ts.len();
                            let x = ts.len() <= 200 && uniq && ts.iter().all(|k| !m.contains(k)) && m.len() + ts.len() <= 10_000;
                            if x { m.extend(ts.iter().cloned()); }
                            ("bind_tokens", g, x)
                        }
                        Step::Unbind { t: k } => {
                            let g = c.try_unbind(&t(*k)).is_ok();
                            let x = m.remove(k);
                            ("unbind_token", g, x)
                        }
                        _ => unreachable!(),
                    };
                    st.tx(kind, got);
                    if got != exp {
                        return Err(violation("binder.dup_or_absent_refused", kind, i, format!("{s:?}: real {got} model {exp}; bound {}", m.len())));
                    }
                    if !got && !heavy && w.storage_digest(&[&id]) != before {
                        return Err(violation("fail.no_trace", kind, i, format!("{s:?}")));
                    }
                    // (count() materialises the whole list too; in a heavy step the count is pinned by index access instead)
                    let cnt = if heavy { m.len() as u32 } else { c.count() };
                    if cnt as usize != m.len() {
                        return Err(violation("binder.getters_eq_model", "count", i, format!("count {cnt} model {}", m.len())));
                    }
                    if cnt > 100 { st.hit("probe.bucket_boundary_crossed"); }
                    if cnt == 10_000 { st.hit(if matches!(s, Step::BindMany { .. }) { "probe.token_limit_reached_by_batch" } else { "probe.token_limit_reached" }); }
                    if heavy {
                        // cheap observations only: count (above), the named token, one index
                        if let Step::Unbind { t: k } | Step::Bind { t: k } = s {
                            if c.is_bound(&t(*k)) != m.contains(k) {
                                return Err(violation("binder.getters_eq_model", "is_bound", i, format!("is_token_bound({k})")));
                            }
                        }
                        if c.try_by_index(&cnt).is_ok() || (cnt > 0 && c.try_by_index(&(cnt - 1)).is_err()) {
                            return Err(violation("binder.enum_each_once", "past_end", i, format!("index access does not end exactly at the model's count {cnt} after {s:?}")));
                        }
                        st.state(&(cnt.min(120), kind));
                        continue;
                    }
                    let all = c.all();
                    let have: BTreeSet<Address> = all.iter().collect();
                    let want: BTreeSet<Address> = m.iter().map(|k| t(*k)).collect();
                    if all.len() != cnt || have != want {
                        return Err(violation("binder.enum_each_once", "linked_tokens", i, format!("linked_tokens has {} entries / {} distinct, model {}", all.len(), have.len(), want.len())));
                    }
                    let probe: std::vec::Vec<u32> = if cnt <= 12 { (0..cnt).collect() } else { vec![0, cnt - 1, 99.min(cnt - 1), 100.min(cnt - 1), cnt / 2] };
                    for k in probe {
                        let tk = c.by_index(&k);
                        if all.get(k) != Some(tk.clone()) || c.index_of(&tk) != k || !c.is_bound(&tk) {
                            return Err(violation("binder.enum_each_once", "by_index", i, format!("index {k} inconsistent")));
                        }
                    }
                    if c.try_by_index(&cnt).is_ok() {
                        return Err(violation("binder.enum_each_once", "past_end", i, "index == count answers".into()));
                    }
                    if let Step::Unbind { t: k } | Step::Bind { t: k } = s {
                        if c.is_bound(&t(*k)) != m.contains(k) {
                            return Err(violation("binder.getters_eq_model", "is_bound", i, format!("is_token_bound({k})")));
                        }
                    }
                    st.state(&(cnt.min(120), kind));
                }
            }
            Kind::Cti => {
                let id = e.register(Cti, ());
                let c = CtiClient::new(e, &id);
                let iss: std::vec::Vec<Address> = (0..cfg.universe).map(|_| Address::generate(e)).collect();
                let mut topics: BTreeSet<u32> = BTreeSet::new();
                let mut m: BTreeMap<u32, BTreeSet<u32>> = BTreeMap::new(); // issuer -> topics
                for (i, s) in steps.iter().enumerate() {
                    if let Step::Wait { n } = s {
                        w.advance(*n);
                        st.ledgers += *n as u64;
                        st.hit("clock.advance");
                        continue;
                    }
                    let before = w.storage_digest(&[&id]);
                    let sv = |ts: &std::vec::Vec<u32>| Vec::from_iter(e, ts.iter().cloned());
                    let (kind, got, exp) = match s {
                        Step::AddTopic { t } => {
                            let g = c.try_add_topic(t).is_ok();
                            let x = !topics.contains(t) && topics.len() < 15;
                            if x { topics.insert(*t); }
                            ("add_claim_topic", g, x)
                        }
                        Step::RemoveTopic { t } => {
                            let g = c.try_remove_topic(t).is_ok();
                            let x = topics.remove(t);
                            if x { for v in m.values_mut() { v.remove(t); } }
                            ("remove_claim_topic", g, x)
                        }
                        Step::AddIssuer { i: k, ts } => {
                            let g = c.try_add_issuer(&iss[*k as usize], &sv(ts)).is_ok();
                            let x = valid_topics(ts, &topics) && !m.contains_key(k) && m.len() < 50;
                            if x { m.insert(*k, ts.iter().cloned().collect()); }
                            ("add_trusted_issuer", g, x)
                        }
                        Step::RemoveIssuer { i: k } => {
                            let g = c.try_remove_issuer(&iss[*k as usize]).is_ok();
                            let x = m.remove(k).is_some();
                            ("remove_trusted_issuer", g, x)
                        }
                        Step::UpdateIssuer { i: k, ts } => {
                            let g = c.try_update_issuer(&iss[*k as usize], &sv(ts)).is_ok();
                            let x = valid_topics(ts, &topics) && m.contains_key(k);
                            if x { m.insert(*k, ts.iter().cloned().collect()); }
                            ("update_issuer_claim_topics", g, x)
                        }
                        _ => unreachable!(),
                    };
                    st.tx(kind, got);
                    if got != exp {
                        return Err(violation("cti.dup_or_absent_or_limit", kind, i, format!("{s:?}: real {got} model {exp}; topics {topics:?} issuers {}", m.len())));
                    }
                    if !got && w.storage_digest(&[&id]) != before {
                        return Err(violation("fail.no_trace", kind, i, format!("{s:?}")));
                    }
                    if m.len() == 50 { st.hit("probe.issuer_limit_reached"); }
                    if topics.len() == 15 { st.hit("probe.topic_limit_reached"); }
                    // every getter, both directions
                    let rt = c.topics();
                    if rt.len() as usize != topics.len() || rt.iter().collect::<BTreeSet<u32>>() != topics {
                        return Err(violation("cti.getters_eq_model", "topics", i, format!("get_claim_topics {rt:?} model {topics:?}")));
                    }
                    let ri = c.issuers();
                    let want_i: BTreeSet<Address> = m.keys().map(|k| iss[*k as usize].clone()).collect();
                    if ri.len() as usize != m.len() || ri.iter().collect::<BTreeSet<Address>>() != want_i {
                        return Err(violation("cti.getters_eq_model", "issuers", i, "get_trusted_issuers".into()));
                    }
                    let both = c.both();
                    for t in 0..18u32 {
                        let want: BTreeSet<Address> = m.iter().filter(|(_, v)| v.contains(&t)).map(|(k, _)| iss[*k as usize].clone()).collect();
                        match c.try_topic_issuers(&t) {
                            Ok(Ok(v)) => {
                                if !topics.contains(&t) || v.len() as usize != want.len() || v.iter().collect::<BTreeSet<Address>>() != want || both.get(t) != Some(v) {
                                    return Err(violation("cti.getters_eq_model", "topic_issuers", i, format!("topic {t}: issuers list disagrees with the relation (after {s:?})")));
                                }
                            }
                            _ => {
                                if topics.contains(&t) {
                                    return Err(violation("cti.getters_eq_model", "topic_issuers", i, format!("topic {t} exists but its issuer list is missing")));
                                }
                            }
                        }
                    }
                    if both.len() as usize != topics.len() {
                        return Err(violation("cti.getters_eq_model", "both", i, "get_claim_topics_and_issuers size".into()));
                    }
                    let probe: std::vec::Vec<u32> = if cfg.universe <= 8 { (0..cfg.universe).collect() } else { let mut v: std::vec::Vec<u32> = m.keys().take(4).cloned().collect(); if let Step::AddIssuer { i: k, .. } | Step::RemoveIssuer { i: k } | Step::UpdateIssuer { i: k, .. } = s { v.push(*k) } v };
                    for k in probe {
                        let ad = &iss[k as usize];
                        if c.is_trusted(ad) != m.contains_key(&k) {
                            return Err(violation("cti.getters_eq_model", "is_trusted", i, format!("issuer {k}")));
                        }
                        match (c.try_issuer_topics(ad), m.get(&k)) {
                            (Ok(Ok(v)), Some(w_)) if v.len() as usize == w_.len() && v.iter().collect::<BTreeSet<u32>>() == *w_ => {
                                for t in 0..18u32 {
                                    if c.has_claim_topic(ad, &t) != w_.contains(&t) {
                                        return Err(violation("cti.getters_eq_model", "has_claim_topic", i, format!("issuer {k} topic {t}")));
                                    }
                                }
                            }
                            (Err(_), None) => {}
                            (r, w_) => return Err(violation("cti.getters_eq_model", "issuer_topics", i, format!("issuer {k}: {:?} vs model {w_:?} after {s:?}", r.map(|x| x.map(|v| v.len()))))),
                        }
                    }
                    st.state(&(topics.len(), m.len().min(52), kind));
                }
            }
            Kind::Keys => {
                let id = e.register(Keys, ());
                let c = KeysClient::new(e, &id);
                let regs: std::vec::Vec<Address> = (0..5).map(|_| e.register(YesRegistry, ())).collect();
                let pk = |k: u32| Bytes::from_array(e, &[(k % 1000) as u8 + 1; 32]);
                let sch = |k: u32| 1 + k / 1000;
                let mut m: BTreeSet<(u32, u32, u32)> = BTreeSet::new();
                for (i, s) in steps.iter().enumerate() {
                    if let Step::Wait { n } = s {
                        w.advance(*n);
                        st.ledgers += *n as u64;
                        st.hit("clock.advance");
                        continue;
                    }
                    let before = w.storage_digest(&[&id]);
                    let (kind, got, exp) = match s {
                        Step::AllowKey { key, topic, reg } => {
                            let g = c.try_allow(&pk(*key), &regs[*reg as usize], &sch(*key), topic).is_ok();
                            let per_key = m.iter().filter(|t| t.0 == *key).count();
                            let keys_in_topic: BTreeSet<u32> = m.iter().filter(|t| t.1 == *topic).map(|t| t.0).collect();
                            let x = !m.contains(&(*key, *topic, *reg)) && per_key < 20 && (keys_in_topic.contains(key) || keys_in_topic.len() < 50);
                            if per_key == 19 && !m.contains(&(*key, *topic, *reg)) { st.hit("probe.registry_limit_reached"); }
                            if keys_in_topic.len() == 50 { st.hit(if keys_in_topic.contains(key) { "probe.full_topic_existing_key_again" } else { "probe.keys_per_topic_limit_reached" }); }
                            if x { m.insert((*key, *topic, *reg)); }
                            ("allow_key", g, x)
                        }
                        Step::RemoveKey { key, topic, reg } => {
                            let g = c.try_remove(&pk(*key), &regs[*reg as usize], &sch(*key), topic).is_ok();
                            let x = m.remove(&(*key, *topic, *reg));
                            ("remove_key", g, x)
                        }
                        _ => unreachable!(),
                    };
                    st.tx(kind, got);
                    if got != exp {
                        let per_key = m.iter().filter(|t| matches!(s, Step::AllowKey { key, .. } | Step::RemoveKey { key, .. } if t.0 == *key)).count();
                        let check = if !got && kind == "allow_key" { "keys.limit_exact" } else { "keys.dup_or_absent_refused" };
                        return Err(violation(check, kind, i, format!("{s:?}: real {got} model {exp}; pairs held by this key (model, after): {per_key}; documented maximum 20")));
                    }
                    if !got && w.storage_digest(&[&id]) != before {
                        return Err(violation("fail.no_trace", kind, i, format!("{s:?}")));
                    }
                    // the three everyday keys plus, in the limit scenario, the first / last / overflow keys and whatever the step named
                    let mut ks: std::vec::Vec<u32> = vec![0, 1, 2, 1000, 1001, 1002];
                    if m.iter().any(|x| x.0 >= 10) { ks.extend([10, 59, 60, 61, 62]); }
                    if let Step::AllowKey { key, .. } | Step::RemoveKey { key, .. } = s { if !ks.contains(key) { ks.push(*key); } }
                    for k in ks {
                        for t in 0..5u32 {
                            let want = m.iter().any(|x| x.0 == k && x.1 == t);
                            if c.allowed_topic(&pk(k), &sch(k), &t) != want {
                                return Err(violation("keys.getters_eq_model", "allowed_topic", i, format!("key {k} topic {t}: model {want}")));
                            }
                        }
                        for r in 0..5u32 {
                            let want = m.iter().any(|x| x.0 == k && x.2 == r);
                            if c.allowed_registry(&pk(k), &sch(k), &regs[r as usize]) != want {
                                return Err(violation("keys.getters_eq_model", "allowed_registry", i, format!("key {k} registry {r}: model {want}")));
                            }
                        }
                        let n = m.iter().filter(|x| x.0 == k).count();
                        match c.try_registries(&pk(k), &sch(k)) {
                            Ok(Ok(v)) if v.len() as usize == n && n > 0 => {}
                            Err(_) if n == 0 => {}
                            r => return Err(violation("keys.getters_eq_model", "registries", i, format!("key {k}: {:?} entries, model {n}", r.map(|x| x.map(|v| v.len()))))),
                        }
                    }
                    for t in 0..5u32 {
                        let want: BTreeSet<u32> = m.iter().filter(|x| x.1 == t).map(|x| x.0).collect();
                        match c.try_keys_for_topic(&t) {
                            Ok(Ok(v)) if v.len() as usize == want.len() && !want.is_empty() && want.iter().all(|k| v.iter().any(|sk| sk.public_key == pk(*k) && sk.scheme == sch(*k))) => {}
                            Err(_) if want.is_empty() => {}
                            r => return Err(violation("keys.getters_eq_model", "keys_for_topic", i, format!("topic {t}: {:?} keys, model {want:?}", r.map(|x| x.map(|v| v.len()))))),
                        }
                    }
                    st.state(&([0u32, 1, 2, 1000, 1001, 1002].iter().map(|k| m.iter().filter(|x| x.0 == *k).count()).collect::<std::vec::Vec<_>>(), kind));
                }
            }
        }
        Ok(())
    }
}
