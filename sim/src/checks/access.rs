//! C06: privileged functions obey the role / admin hierarchy; enumeration mirrors membership.

use crate::core::*;
use crate::world::{Base as W, Inv};
use serde::{Deserialize, Serialize};
#[allow(unused_imports)]
use soroban_sdk::{contract, contractimpl, Address, Env, IntoVal, Symbol, Vec};
use std::collections::{BTreeMap, BTreeSet};
use stellar_access::access_control::{self as ac, AccessControl};
use stellar_macros::{has_any_role, has_role, only_admin, only_any_role, only_role};

mod nft_ex {
    #[path = "/repo/examples/nft-access-control/src/contract.rs"]
    pub mod c;
}

#[contract]
pub struct Acl;
#[contractimpl]
impl Acl {
    pub fn __constructor(e: &Env, admin: Address) {
        ac::set_admin(e, &admin);
    }
    /// what an integrator's constructor or set-up code does: the documented idempotent no-auth grant (e.g. an initial
    /// member list that names an address twice)
    pub fn seed_role(e: &Env, account: Address, role: soroban_sdk::Symbol) {
        ac::grant_role_no_auth(e, &account, &role, &account)
    }
    #[only_admin]
    pub fn admin_fn(e: &Env) -> u32 {
        1
    }
    #[only_role(caller, "minter")]
    pub fn role_fn(e: &Env, caller: Address) -> u32 {
        2
    }
    #[has_role(caller, "minter")]
    pub fn has_role_fn(e: &Env, caller: Address) -> u32 {
        3
    }
    #[only_any_role(caller, ["minter", "burner"])]
    pub fn any_fn(e: &Env, caller: Address) -> u32 {
        4
    }
    #[has_any_role(caller, ["minter", "burner"])]
    pub fn has_any_fn(e: &Env, caller: Address) -> u32 {
        5
    }
}
#[contractimpl(contracttrait)]
impl AccessControl for Acl {}

const ROLES: [&str; 4] = ["minter", "burner", "pauser", "auditor"];

#[derive(Clone, Copy, Debug, Serialize, Deserialize, PartialEq)]
pub enum Guarded {
    Admin,
    Role,
    HasRole,
    Any,
    HasAny,
}
#[derive(Clone, Debug, Serialize, Deserialize)]
pub enum Step {
    /// the clock (inserted by the core's clock faults): nothing but time passes
    Wait { n: u32 },
    Grant { account: usize, role: usize, caller: usize, signer: Option<usize> },
    /// wrapper flavour only: grant_role_no_auth through set-up code (idempotent by its documentation)
    Seed { account: usize, role: usize },
    Revoke { account: usize, role: usize, caller: usize, signer: Option<usize> },
    Renounce { role: usize, caller: usize, signer: Option<usize> },
    SetRoleAdmin { role: usize, admin_role: usize, signer: Option<usize> },
    RenounceAdmin { signer: Option<usize> },
    Call { which: Guarded, caller: usize, signer: Option<usize> },
}
#[derive(Clone, Debug, Serialize, Deserialize)]
pub struct Cfg {
    pub actors: usize,
    /// run against examples/nft-access-control (from source) instead of the wrapper
    #[serde(default)]
    pub example: bool,
}
#[derive(Clone, Debug, Default)]
struct Model {
    members: BTreeSet<(usize, usize)>,
    role_admin: BTreeMap<usize, usize>,
    admin: Option<usize>,
}
impl Model {
    fn may_manage(&self, caller: usize, role: usize) -> bool {
        self.admin == Some(caller) || self.role_admin.get(&role).map(|ar| self.members.contains(&(caller, *ar))).unwrap_or(false)
    }
    fn apply(&mut self, s: &Step) -> bool {
        self.apply_for(s, false)
    }
    fn apply_for(&mut self, s: &Step, example: bool) -> bool {
        match *s {
            Step::Wait { .. } => true,
            Step::Grant { account, role, caller, signer } => {
                if signer != Some(caller) || !self.may_manage(caller, role) {
                    return false;
                }
                // MAX_ROLES = 256 roles with at least one member; a role that exists already can always grow
                let existing: BTreeSet<usize> = self.members.iter().map(|x| x.1).collect();
                if !existing.contains(&role) && existing.len() >= 256 {
                    return false;
                }
                self.members.insert((account, role));
                true
            }
            Step::Revoke { account, role, caller, signer } => {
                if signer != Some(caller) || !self.may_manage(caller, role) || !self.members.contains(&(account, role)) {
                    return false;
                }
                self.members.remove(&(account, role));
                true
            }
            Step::Seed { account, role } => {
                let existing: BTreeSet<usize> = self.members.iter().map(|x| x.1).collect();
                if !existing.contains(&role) && existing.len() >= 256 {
                    return false;
                }
                self.members.insert((account, role));
                true
            }
            Step::Renounce { role, caller, signer } => {
                if signer != Some(caller) || !self.members.contains(&(caller, role)) {
                    return false;
                }
                self.members.remove(&(caller, role));
                true
            }
            Step::SetRoleAdmin { role, admin_role, signer } => {
                if self.admin.is_none() || signer != self.admin {
                    return false;
                }
                self.role_admin.insert(role, admin_role);
                true
            }
            Step::RenounceAdmin { signer } => {
                if self.admin.is_none() || signer != self.admin {
                    return false;
                }
                self.admin = None;
                true
            }
            Step::Call { which, caller, signer } => {
                let m = |r: usize| self.members.contains(&(caller, r));
                match which {
                    Guarded::Admin => self.admin.is_some() && signer == self.admin,
                    Guarded::Role => m(0) && signer == Some(caller),
                    Guarded::HasRole => m(0),
                    Guarded::Any => (m(0) || m(1)) && signer == Some(caller),
                    // examples/nft-access-control: `multi_role_action` is #[has_any_role] and calls caller.require_auth() itself
                    Guarded::HasAny => (m(0) || m(1)) && (!example || signer == Some(caller)),
                }
            }
        }
    }
}

pub struct Access;

impl Check for Access {
    type Cfg = Cfg;
    type Step = Step;
    fn id(&self) -> &'static str {
        "access"
    }
    fn runs(&self, tier: Tier) -> u64 {
        if tier == Tier::Quick {
            3000
        } else {
            25000
        }
    }
    fn components(&self) -> serde_json::Value {
        serde_json::json!({"real": ["examples/nft-access-control (from source; 35 % of the runs)", "stellar_access::access_control::* (trait defaults)", "stellar_macros::{only_admin, only_role, has_role, only_any_role, has_any_role}"], "stub": ["Wallet"]})
    }
    fn probes(&self, _prop: &str) -> std::vec::Vec<&'static str> {
        vec!["probe.max_roles_reached", "probe.no_auth_grant_to_existing_member", "fault.auth_missing", "fault.auth_foreign"]
    }
    fn clock_step(&self, n: u32) -> Option<Step> {
        Some(Step::Wait { n })
    }
    fn dup_ok(&self, _s: &Step) -> bool {
        true
    }
    fn reorder_ok(&self) -> bool {
        true
    }
    fn generate(&self, rng: &mut Rng, tier: Tier) -> (Cfg, std::vec::Vec<Step>) {
        let cfg = Cfg { actors: 4 + rng.below(3) as usize, example: rng.chance(35) };
        let n = cfg.actors as u64;
        let nsteps = if tier == Tier::Quick { 30 + rng.below(50) } else { 30 + rng.below(100) } as usize;
        let mut m = Model { admin: Some(0), ..Default::default() };
        let fault = if rng.chance(25) { 0 } else { 5 + rng.below(20) };
        let mut steps = vec![];
        if rng.below(if tier == Tier::Quick { 250 } else { 150 }) == 0 {
            // limit scenario: MAX_ROLES (256) roles in existence, one more refused, a member added to an existing role accepted,
            // one role emptied, a new one admitted
            for j in 0..256usize {
                steps.push(Step::Grant { account: 1, role: 10 + j, caller: 0, signer: Some(0) });
            }
            steps.push(Step::Grant { account: 1, role: 300, caller: 0, signer: Some(0) });
            steps.push(Step::Grant { account: 2, role: 10 + rng.below(256) as usize, caller: 0, signer: Some(0) });
            steps.push(Step::Revoke { account: 1, role: 10 + rng.below(256) as usize, caller: 0, signer: Some(0) });
            steps.push(Step::Grant { account: 1, role: 300, caller: 0, signer: Some(0) });
            steps.push(Step::Grant { account: 1, role: 301, caller: 0, signer: Some(0) });
            for st in &steps {
                m.apply_for(st, cfg.example);
            }
        }
        for _ in 0..nsteps {
            let any = |rng: &mut Rng| rng.below(n) as usize;
            let role = rng.below(4) as usize;
            // a caller likely to be entitled
            let manager = |rng: &mut Rng, m: &Model, role: usize| -> usize {
                let mut c: std::vec::Vec<usize> = m.admin.into_iter().collect();
                if let Some(ar) = m.role_admin.get(&role) {
                    c.extend(m.members.iter().filter(|x| x.1 == *ar).map(|x| x.0));
                }
                if c.is_empty() || rng.chance(15) { rng.below(n) as usize } else { *rng.pick(&c) }
            };
            let sign = |rng: &mut Rng, who: usize| if rng.chance(fault) { if rng.chance(50) { None } else { Some(rng.below(n) as usize) } } else { Some(who) };
            let s = match rng.below(100) {
                0..=29 => {
                    let caller = manager(rng, &m, role);
                    Step::Grant { account: any(rng), role, caller, signer: sign(rng, caller) }
                }
                30..=47 => {
                    let caller = manager(rng, &m, role);
                    let ms: std::vec::Vec<usize> = m.members.iter().filter(|x| x.1 == role).map(|x| x.0).collect();
                    let account = if ms.is_empty() || rng.chance(15) { any(rng) } else { *rng.pick(&ms) };
                    Step::Revoke { account, role, caller, signer: sign(rng, caller) }
                }
                48..=55 => {
                    let ms: std::vec::Vec<usize> = m.members.iter().filter(|x| x.1 == role).map(|x| x.0).collect();
                    let caller = if ms.is_empty() || rng.chance(20) { any(rng) } else { *rng.pick(&ms) };
                    Step::Renounce { role, caller, signer: sign(rng, caller) }
                }
                56..=67 => {
                    let who = m.admin.unwrap_or_else(|| any(rng));
                    let who = if rng.chance(12) { any(rng) } else { who };
                    Step::SetRoleAdmin { role, admin_role: rng.below(4) as usize, signer: sign(rng, who) }
                }
                70 if !cfg.example => {
                    // often an account that already holds the role (the idempotent case)
                    let held: std::vec::Vec<(usize, usize)> = m.members.iter().cloned().collect();
                    if !held.is_empty() && rng.chance(60) { let h = *rng.pick(&held); Step::Seed { account: h.0, role: h.1 } } else { Step::Seed { account: any(rng), role } }
                }
                68..=69 => {
                    let who = if rng.chance(70) { m.admin.unwrap_or_else(|| any(rng)) } else { any(rng) };
                    Step::RenounceAdmin { signer: sign(rng, who) }
                }
                _ => {
                    // the example has no function guarded by a bare #[has_role] that can be called in isolation
                    let which = if cfg.example { *rng.pick(&[Guarded::Admin, Guarded::Role, Guarded::Any, Guarded::HasAny]) } else { *rng.pick(&[Guarded::Admin, Guarded::Role, Guarded::HasRole, Guarded::Any, Guarded::HasAny]) };
                    let caller = any(rng);
                    let who = if which == Guarded::Admin { m.admin.unwrap_or(caller) } else { caller };
                    Step::Call { which, caller, signer: sign(rng, who) }
                }
            };
            m.apply_for(&s, cfg.example);
            steps.push(s);
        }
        (cfg, steps)
    }
    fn execute(&self, cfg: &Cfg, steps: &[Step], st: &mut Stats) -> Result<(), Violation> {
        let w = W::new(cfg.actors, 100, 16);
        let e = &w.e;
        let a = |i: usize| w.actors[i].clone();
        let id = if cfg.example {
            e.register(nft_ex::c::ExampleContract, (soroban_sdk::String::from_str(e, "u"), soroban_sdk::String::from_str(e, "n"), soroban_sdk::String::from_str(e, "s"), a(0)))
        } else {
            e.register(Acl, (a(0),))
        };
        let c = AclClient::new(e, &id); // the AccessControl entry points and getters have the same names in both contracts
        let role = |r: usize| if r < 4 { Symbol::new(e, ROLES[r]) } else { Symbol::new(e, &format!("r{r}")) };
        let mut m = Model { admin: Some(0), ..Default::default() };
        let call = |f: &str, args: Vec<soroban_sdk::Val>| -> bool { e.try_invoke_contract::<soroban_sdk::Val, soroban_sdk::Error>(&id, &Symbol::new(e, f), args).map(|r| r.is_ok()).unwrap_or(false) };
        for (i, s) in steps.iter().enumerate() {
            let one = |who: Option<usize>, f: &'static str, args: Vec<soroban_sdk::Val>| match who {
                Some(x) => w.set_auth(&[(x, Inv::new(&id, f, args))]),
                None => w.set_auth(&[]),
            };
            match s {
                Step::Grant { caller, signer, .. } | Step::Revoke { caller, signer, .. } | Step::Renounce { caller, signer, .. } | Step::Call { caller, signer, which: Guarded::Role | Guarded::Any | Guarded::HasAny | Guarded::HasRole } => {
                    if signer.is_none() {
                        st.hit("fault.auth_missing");
                    } else if *signer != Some(*caller) {
                        st.hit("fault.auth_foreign");
                    }
                }
                _ => {}
            }
            let before = w.storage_digest(&[&id]);
            let (kind, got) = match s {
                Step::Wait { n } => {
                    w.advance(*n);
                    st.ledgers += *n as u64;
                    st.hit("clock.advance");
                    ("wait", true)
                }
                Step::Grant { account, role: r, caller, signer } => {
                    one(*signer, "grant_role", (a(*account), role(*r), a(*caller)).into_val(e));
                    ("grant_role", c.try_grant_role(&a(*account), &role(*r), &a(*caller)).is_ok())
                }
                Step::Revoke { account, role: r, caller, signer } => {
                    one(*signer, "revoke_role", (a(*account), role(*r), a(*caller)).into_val(e));
                    ("revoke_role", c.try_revoke_role(&a(*account), &role(*r), &a(*caller)).is_ok())
                }
                Step::Seed { account, role: r } => {
                    if m.members.contains(&(*account, *r)) { st.hit("probe.no_auth_grant_to_existing_member"); }
                    ("seed_role", c.try_seed_role(&a(*account), &role(*r)).is_ok())
                }
                Step::Renounce { role: r, caller, signer } => {
                    one(*signer, "renounce_role", (role(*r), a(*caller)).into_val(e));
                    ("renounce_role", c.try_renounce_role(&role(*r), &a(*caller)).is_ok())
                }
                Step::SetRoleAdmin { role: r, admin_role, signer } => {
                    one(*signer, "set_role_admin", (role(*r), role(*admin_role)).into_val(e));
                    ("set_role_admin", c.try_set_role_admin(&role(*r), &role(*admin_role)).is_ok())
                }
                Step::RenounceAdmin { signer } => {
                    one(*signer, "renounce_admin", ().into_val(e));
                    ("renounce_admin", c.try_renounce_admin().is_ok())
                }
                Step::Call { which, caller, signer } if cfg.example => match which {
                    Guarded::Admin => {
                        one(*signer, "admin_restricted_function", ().into_val(e));
                        ("admin_fn", call("admin_restricted_function", ().into_val(e)))
                    }
                    Guarded::Role | Guarded::HasRole => {
                        // mint(to, token_id, caller) is #[only_role(caller, "minter")]; a fresh token id per step
                        let tid = 1_000 + i as u32;
                        one(*signer, "mint", (a(*caller), tid, a(*caller)).into_val(e));
                        ("role_fn", call("mint", (a(*caller), tid, a(*caller)).into_val(e)))
                    }
                    Guarded::Any => {
                        one(*signer, "multi_role_auth_action", (a(*caller),).into_val(e));
                        ("any_fn", call("multi_role_auth_action", (a(*caller),).into_val(e)))
                    }
                    Guarded::HasAny => {
                        one(*signer, "multi_role_action", (a(*caller),).into_val(e));
                        ("has_any_fn", call("multi_role_action", (a(*caller),).into_val(e)))
                    }
                },
                Step::Call { which, caller, signer } => match which {
                    Guarded::Admin => {
                        one(*signer, "admin_fn", ().into_val(e));
                        ("admin_fn", c.try_admin_fn().is_ok())
                    }
                    Guarded::Role => {
                        one(*signer, "role_fn", (a(*caller),).into_val(e));
                        ("role_fn", c.try_role_fn(&a(*caller)).is_ok())
                    }
                    Guarded::HasRole => {
                        one(*signer, "has_role_fn", (a(*caller),).into_val(e));
                        ("has_role_fn", c.try_has_role_fn(&a(*caller)).is_ok())
                    }
                    Guarded::Any => {
                        one(*signer, "any_fn", (a(*caller),).into_val(e));
                        ("any_fn", c.try_any_fn(&a(*caller)).is_ok())
                    }
                    Guarded::HasAny => {
                        one(*signer, "has_any_fn", (a(*caller),).into_val(e));
                        ("has_any_fn", c.try_has_any_fn(&a(*caller)).is_ok())
                    }
                },
            };
            let exp = m.apply_for(s, cfg.example);
            if kind != "wait" {
                st.tx(kind, got);
            }
            if got != exp {
                let check = match (kind, got) {
                    ("grant_role", true) => "grant.needs_admin_or_role_admin",
                    ("revoke_role", true) => "revoke.needs_admin_or_role_admin",
                    ("admin_fn" | "role_fn" | "has_role_fn" | "any_fn" | "has_any_fn", true) => "guard.needs_principal",
                    ("renounce_role", true) => "renounce.needs_holder_auth",
                    ("set_role_admin" | "renounce_admin", true) => "admin_only.needs_admin_auth",
                    (_, true) => "refine.must_fail",
                    (_, false) => "live.authorised_call_succeeds",
                };
                return Err(violation(check, kind, i, format!("{s:?}: real {got} model {exp}; model {m:?}")));
            }
            if !got && w.storage_digest(&[&id]) != before {
                return Err(violation("fail.no_trace", kind, i, format!("state changed by refused {s:?}")));
            }
            // enumeration mirrors membership
            if c.get_admin() != m.admin.map(|x| a(x)) {
                return Err(violation("admin.model_eq", kind, i, "get_admin".into()));
            }
            let mut existing: BTreeSet<usize> = m.members.iter().map(|x| x.1).filter(|r| *r >= 4).collect();
            if existing.len() >= 252 { st.hit("probe.max_roles_reached"); }
            let mut inspect: std::vec::Vec<usize> = (0..4).collect();
            if let Step::Grant { role: r, .. } | Step::Revoke { role: r, .. } | Step::Renounce { role: r, .. } | Step::Seed { role: r, .. } = s { if *r >= 4 { inspect.push(*r); } }
            if !existing.is_empty() { inspect.extend([10, 265, 300, 301]); }
            inspect.sort();
            inspect.dedup();
            for r in inspect {
                let want: BTreeSet<usize> = m.members.iter().filter(|x| x.1 == r).map(|x| x.0).collect();
                let cnt = c.get_role_member_count(&role(r));
                if cnt as usize != want.len() {
                    return Err(violation("enum.bijection", kind, i, format!("role {r}: count {cnt}, model {}", want.len())));
                }
                let mut seen = BTreeSet::new();
                for k in 0..cnt {
                    let mem = c.get_role_member(&role(r), &k);
                    let Some(idx) = w.idx(&mem) else { return Err(violation("enum.bijection", kind, i, format!("role {r}: index {k} holds an address that was never granted anything"))) };
                    if !want.contains(&idx) || !seen.insert(idx) {
                        return Err(violation("enum.bijection", kind, i, format!("role {r}: index {k} holds actor {idx}, model {want:?}")));
                    }
                    if c.has_role(&mem, &role(r)) != Some(k) {
                        return Err(violation("enum.gap_free", kind, i, format!("role {r}: has_role(actor {idx}) != Some({k})")));
                    }
                }
                if c.try_get_role_member(&role(r), &cnt).is_ok() {
                    return Err(violation("enum.gap_free", kind, i, format!("role {r}: index {cnt} (one past the end) answers")));
                }
                for x in 0..cfg.actors {
                    if c.has_role(&a(x), &role(r)).is_some() != want.contains(&x) {
                        return Err(violation("enum.bijection", kind, i, format!("role {r}: has_role(actor {x}) disagrees with model")));
                    }
                }
                if !want.is_empty() {
                    existing.insert(r);
                }
                if c.get_role_admin(&role(r)) != m.role_admin.get(&r).map(|x| role(*x)) {
                    return Err(violation("role_admin.model_eq", kind, i, format!("role {r}")));
                }
            }
            let mut ex: BTreeSet<usize> = BTreeSet::new();
            for sy in c.get_existing_roles().iter() {
                match (0..4).chain(existing.iter().cloned()).find(|r| role(*r) == sy) {
                    Some(r) => {
                        if !ex.insert(r) {
                            return Err(violation("roles.existing_eq_nonempty", kind, i, format!("get_existing_roles lists role {r} twice")));
                        }
                    }
                    None => return Err(violation("roles.existing_eq_nonempty", kind, i, "get_existing_roles lists a role nobody was ever granted".into())),
                }
            }
            if ex != existing || c.get_existing_roles().len() as usize != existing.len() {
                return Err(violation("roles.existing_eq_nonempty", kind, i, format!("existing roles {ex:?}, model {existing:?}")));
            }
            st.state(&(cfg.example, m.members.iter().filter(|x| x.1 < 4).cloned().collect::<std::vec::Vec<_>>(), m.members.len().min(300) / 64, m.role_admin.clone(), m.admin));
        }
        Ok(())
    }
}
