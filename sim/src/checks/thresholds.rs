//! C14 (threshold parts): simple threshold (example from source) and weighted threshold (wrapper).

use crate::core::*;
use crate::world::Base as W;
use serde::{Deserialize, Serialize};
use soroban_sdk::{auth::{Context, ContractContext}, contract, contractimpl, vec as svec, Address, Bytes, Env, IntoVal, Map, String as SString, Symbol, Val, Vec};
use std::collections::BTreeMap;
use stellar_accounts::{
    policies::{simple_threshold::SimpleThresholdAccountParams, weighted_threshold::{self as wt, WeightedThresholdAccountParams}, Policy},
    smart_account::{ContextRule, ContextRuleType, Signer},
};

mod ex {
    #[path = "/repo/examples/multisig-smart-account/threshold-policy/src/contract.rs"]
    pub mod c;
}
use ex::c::{ThresholdPolicyContract, ThresholdPolicyContractClient};

#[contract]
pub struct Weighted;
#[contractimpl]
impl Policy for Weighted {
    type AccountParams = WeightedThresholdAccountParams;
    fn can_enforce(e: &Env, c: Context, s: Vec<Signer>, r: ContextRule, a: Address) -> bool { wt::can_enforce(e, &c, &s, &r, &a) }
    fn enforce(e: &Env, c: Context, s: Vec<Signer>, r: ContextRule, a: Address) { wt::enforce(e, &c, &s, &r, &a) }
    fn install(e: &Env, p: WeightedThresholdAccountParams, r: ContextRule, a: Address) { wt::install(e, &p, &r, &a) }
    fn uninstall(e: &Env, r: ContextRule, a: Address) { wt::uninstall(e, &r, &a) }
}
#[contractimpl]
impl Weighted {
    pub fn set_threshold(e: &Env, t: u32, r: ContextRule, a: Address) { wt::set_threshold(e, t, &r, &a) }
    pub fn set_signer_weight(e: &Env, s: Signer, w: u32, r: ContextRule, a: Address) { wt::set_signer_weight(e, &s, w, &r, &a) }
    pub fn get_threshold(e: &Env, id: u32, a: Address) -> u32 { wt::get_threshold(e, id, &a) }
    pub fn get_signer_weights(e: &Env, r: ContextRule, a: Address) -> Map<Signer, u32> { wt::get_signer_weights(e, &r, &a) }
    pub fn calculate_weight(e: &Env, s: Vec<Signer>, r: ContextRule, a: Address) -> u32 { wt::calculate_weight(e, &s, &r, &a) }
}
#[contract]
pub struct Acct;
#[contractimpl]
impl Acct {
    pub fn call(e: &Env, target: Address, f: Symbol, args: Vec<Val>) -> Val { e.invoke_contract::<Val>(&target, &f, args) }
}

#[derive(Clone, Debug, Serialize, Deserialize)]
pub enum Step {
    /// the clock (inserted by the core's clock faults)
    Wait { n: u32 },
    /// omit: rule signers that get NO weight entry (they count for nothing, and must not hide the signers after them)
    Install { threshold: u32, weights: std::vec::Vec<u32>, #[serde(default)] omit: std::vec::Vec<usize> },
    SetThreshold { t: u32, by_account: bool },
    SetWeight { s: usize, w: u32 },
    Uninstall,
    Check { subset: std::vec::Vec<usize>, by_account: bool },
}
#[derive(Clone, Debug, Serialize, Deserialize)]
pub struct Cfg { pub weighted: bool, pub signers: usize }

#[derive(Clone, Debug, Default)]
struct Model { installed: bool, t: u32, w: BTreeMap<usize, u32> }

pub struct Thresholds;
impl Check for Thresholds {
    type Cfg = Cfg;
    type Step = Step;
    fn id(&self) -> &'static str { "thresholds" }
    fn runs(&self, tier: Tier) -> u64 {
        if tier == Tier::Quick {
            8000
        } else {
            200000
        }
    }
    fn components(&self) -> serde_json::Value { serde_json::json!({"real": ["examples/multisig-smart-account/threshold-policy (from source)", "policies::{simple_threshold, weighted_threshold}::*"], "stub": ["Acct forwarder standing in for the smart account"]}) }
    fn clock_step(&self, n: u32) -> Option<Step> {
        Some(Step::Wait { n })
    }
    fn generate(&self, rng: &mut Rng, tier: Tier) -> (Cfg, std::vec::Vec<Step>) {
        let cfg = Cfg { weighted: rng.chance(50), signers: 2 + rng.below(4) as usize };
        let n = cfg.signers;
        let nsteps = if tier == Tier::Quick { 25 + rng.below(30) } else { 25 + rng.below(70) } as usize;
        let wv = |rng: &mut Rng| match rng.below(8) { 0 => 0, 1 => u32::MAX, 2 => u32::MAX / 2 + 1, _ => 1 + rng.below(10) as u32 };
        let mut steps = vec![];
        for k in 0..nsteps {
            let s = match if k == 0 { 0 } else { rng.below(100) } {
                0..=9 => Step::Install { threshold: match rng.below(6) { 0 => 0, 1 => n as u32 + 1, 2 => u32::MAX, _ => 1 + rng.below(n as u64 * 3) as u32 }, weights: (0..n).map(|_| wv(rng)).collect(), omit: if rng.chance(45) { (0..n).filter(|_| rng.chance(30)).collect() } else { vec![] } },
                10..=21 => Step::SetThreshold { t: match rng.below(6) { 0 => 0, 1 => n as u32, 2 => n as u32 + 1, _ => 1 + rng.below(n as u64 * 4) as u32 }, by_account: !rng.chance(10) },
                22..=33 => Step::SetWeight { s: rng.below(n as u64 + 1) as usize, w: wv(rng) },
                34..=36 => Step::Uninstall,
                _ => { let subset: std::vec::Vec<usize> = (0..n).filter(|_| rng.chance(55)).collect(); Step::Check { subset, by_account: !rng.chance(8) } }
            };
            steps.push(s);
        }
        (cfg, steps)
    }
    fn dup_ok(&self, _s: &Step) -> bool {
        true
    }
    fn reorder_ok(&self) -> bool {
        true
    }
    fn execute(&self, cfg: &Cfg, steps: &[Step], st: &mut Stats) -> Result<(), Violation> {
        let w = W::new(1, 100, 16);
        let e = &w.e;
        let pol = if cfg.weighted { e.register(Weighted, ()) } else { e.register(ThresholdPolicyContract, ()) };
        let acct = e.register(Acct, ());
        let ac = AcctClient::new(e, &acct);
        let signer = |k: usize| Signer::External(w.actors[0].clone(), Bytes::from_array(e, &[k as u8 + 1; 8]));
        let rule = ContextRule { id: 5, context_type: ContextRuleType::Default, name: SString::from_str(e, "r"), signers: Vec::from_iter(e, (0..cfg.signers).map(|k| signer(k))), policies: svec![e, pol.clone()], valid_until: None };
        let ctx = Context::Contract(ContractContext { contract: w.actors[0].clone(), fn_name: Symbol::new(e, "x"), args: svec![e] });
        let call = |f: &str, args: Vec<Val>| ac.try_call(&pol, &Symbol::new(e, f), &args).is_ok();
        let mut m = Model::default();
        for (i, s) in steps.iter().enumerate() {
            if let Step::Wait { n } = s {
                w.advance(*n);
                st.ledgers += *n as u64;
                st.hit("clock.advance");
                continue;
            }
            w.set_auth(&[]);
            let before = w.storage_digest(&[&pol]);
            let total = |mw: &BTreeMap<usize, u32>| mw.values().try_fold(0u32, |a, b| a.checked_add(*b));
            let mut outcome: Option<(&str, bool, bool)> = None;
            match s {
                Step::Wait { .. } => unreachable!("handled above"),
                Step::Install { threshold, weights, omit } => {
                    if cfg.weighted {
                        let mut mp: Map<Signer, u32> = Map::new(e);
                        for (k, x) in weights.iter().enumerate().take(cfg.signers) { if !omit.contains(&k) { mp.set(signer(k), *x); } }
                        let p = WeightedThresholdAccountParams { signer_weights: mp, threshold: *threshold };
                        let g = call("install", (p, rule.clone(), acct.clone()).into_val(e));
                        let mw: BTreeMap<usize, u32> = weights.iter().enumerate().take(cfg.signers).filter(|(k, _)| !omit.contains(k)).map(|(k, x)| (k, *x)).collect();
                        if !omit.is_empty() { st.hit("probe.install_with_unweighted_rule_signers"); }
                        let x = !m.installed && matches!(total(&mw), Some(t) if *threshold >= 1 && *threshold <= t);
                        if x { m = Model { installed: true, t: *threshold, w: mw }; }
                        outcome = Some(("install", g, x));
                    } else {
                        let g = call("install", (SimpleThresholdAccountParams { threshold: *threshold }, rule.clone(), acct.clone()).into_val(e));
                        let x = !m.installed && *threshold >= 1 && *threshold as usize <= cfg.signers;
                        if x { m.installed = true; m.t = *threshold; }
                        outcome = Some(("install", g, x));
                    }
                }
                Step::SetThreshold { t, by_account } => {
                    let args: Vec<Val> = (*t, rule.clone(), acct.clone()).into_val(e);
                    let g = if *by_account { call("set_threshold", args) } else { e.try_invoke_contract::<Val, soroban_sdk::Error>(&pol, &Symbol::new(e, "set_threshold"), args).map(|r| r.is_ok()).unwrap_or(false) };
                    let x = *by_account && if cfg.weighted { m.installed && *t >= 1 && matches!(total(&m.w), Some(tt) if *t <= tt) } else { *t >= 1 && *t as usize <= cfg.signers };
                    if x { m.t = *t; m.installed = true; }
                    outcome = Some(("set_threshold", g, x));
                }
                Step::SetWeight { s: k, w: wgt } => {
                    if cfg.weighted {
                        let g = call("set_signer_weight", (signer(*k), *wgt, rule.clone(), acct.clone()).into_val(e));
                        let mut nw = m.w.clone();
                        nw.insert(*k, *wgt);
                        let x = m.installed && matches!(total(&nw), Some(tt) if m.t <= tt);
                        if x { m.w = nw; }
                        outcome = Some(("set_signer_weight", g, x));
                    }
                }
                Step::Uninstall => { if call("uninstall", (rule.clone(), acct.clone()).into_val(e)) { m = Model::default(); } }
                Step::Check { subset, by_account } => {
                    let sg: Vec<Signer> = Vec::from_iter(e, subset.iter().map(|k| signer(*k)));
                    let args: Vec<Val> = (ctx.clone(), sg.clone(), rule.clone(), acct.clone()).into_val(e);
                    let can = matches!(e.try_invoke_contract::<bool, soroban_sdk::Error>(&pol, &Symbol::new(e, "can_enforce"), args.clone()), Ok(Ok(true)));
                    let got = if *by_account { call("enforce", args) } else { e.try_invoke_contract::<Val, soroban_sdk::Error>(&pol, &Symbol::new(e, "enforce"), args).map(|r| r.is_ok()).unwrap_or(false) };
                    let want = m.installed && if cfg.weighted { subset.iter().map(|k| *m.w.get(k).unwrap_or(&0) as u64).sum::<u64>() >= m.t as u64 } else { subset.len() as u32 >= m.t };
                    st.tx(if *by_account { "enforce" } else { "enforce_by_stranger" }, got);
                    if !*by_account && got { return Err(violation("enforce.needs_account", "enforce", i, format!("{s:?}"))); }
                    if *by_account && can != got { return Err(violation("agree.can_enforce_eq_enforce", "enforce", i, format!("can {can} enforce {got} at {s:?} model {m:?}"))); }
                    if can != want {
                        return Err(violation(if cfg.weighted { "weighted.accept_iff_weight" } else { "simple.accept_iff_count" }, "can_enforce", i, format!("can_enforce {can}, model {want}; {s:?} model {m:?}")));
                    }
                    if w.storage_digest(&[&pol]) != before { return Err(violation("fail.no_trace", "enforce", i, "threshold policies keep no per-call state".into())); }
                }
            }
            if let Some((kind, got, exp)) = outcome {
                st.tx(kind, got);
                if got != exp { return Err(violation("config.zero_or_unreachable_refused", kind, i, format!("{s:?}: real {got} model {exp}; model {m:?} signers {}", cfg.signers))); }
                if !got && w.storage_digest(&[&pol]) != before { return Err(violation("fail.no_trace", kind, i, format!("{s:?}"))); }
            }
            // configuration getters equal the model (and refuse when nothing is installed)
            let th = e.try_invoke_contract::<u32, soroban_sdk::Error>(&pol, &Symbol::new(e, "get_threshold"), (rule.id, acct.clone()).into_val(e));
            match (&th, m.installed) {
                (Ok(Ok(t)), true) if *t == m.t => {}
                (Err(_), false) => {}
                _ => return Err(violation("config.getters_eq_model", "get_threshold", i, format!("get_threshold = {th:?}, model installed={} t={} after {s:?}", m.installed, m.t))),
            }
            if cfg.weighted && m.installed {
                let ws = e.try_invoke_contract::<Map<Signer, u32>, soroban_sdk::Error>(&pol, &Symbol::new(e, "get_signer_weights"), (rule.clone(), acct.clone()).into_val(e));
                let ok = match &ws {
                    Ok(Ok(mp)) => mp.len() as usize == m.w.len() && m.w.iter().all(|(k, v)| mp.get(signer(*k)) == Some(*v)),
                    _ => false,
                };
                if !ok {
                    return Err(violation("config.getters_eq_model", "get_signer_weights", i, format!("stored weights differ from model {:?} after {s:?}", m.w)));
                }
                let all: Vec<Signer> = Vec::from_iter(e, (0..=cfg.signers).map(|k| signer(k)));
                let cw = e.try_invoke_contract::<u32, soroban_sdk::Error>(&pol, &Symbol::new(e, "calculate_weight"), (all, rule.clone(), acct.clone()).into_val(e));
                let want = total(&m.w);
                match (&cw, want) {
                    (Ok(Ok(x)), Some(t)) if *x == t => {}
                    (Err(_), None) => {}
                    _ => return Err(violation("weighted.accept_iff_weight", "calculate_weight", i, format!("calculate_weight(all signers) = {cw:?}, model {want:?}"))),
                }
            }
            st.state(&(cfg.weighted, m.installed, m.t.min(20), m.w.values().filter(|x| **x > 0).count(), std::mem::discriminant(s)));
        }
        Ok(())
    }
}
