//! C04: RWA tokens never move past the compliance, identity, freeze and pause gates (stub-seam world).

use crate::core::*;
use crate::world::{Base as W, Inv};
use serde::{Deserialize, Serialize};
#[allow(unused_imports)]
use soroban_sdk::{contract, contractimpl, symbol_short, Address, Env, IntoVal, MuxedAddress, String as SString};
use std::collections::BTreeMap;
use stellar_contract_utils::pausable;
use stellar_tokens::fungible::FungibleToken;
use stellar_tokens::rwa::RWA;

#[contract]
pub struct Rwa;
#[contractimpl]
impl Rwa {
    pub fn __constructor(e: &Env, compliance: Address, idv: Address) {
        RWA::set_compliance(e, &compliance);
        RWA::set_identity_verifier(e, &idv);
    }
    pub fn mint(e: &Env, to: Address, amount: i128) {
        RWA::mint(e, &to, amount)
    }
    pub fn burn(e: &Env, who: Address, amount: i128) {
        RWA::burn(e, &who, amount)
    }
    pub fn forced_transfer(e: &Env, from: Address, to: Address, amount: i128) {
        RWA::forced_transfer(e, &from, &to, amount)
    }
    pub fn recover_balance(e: &Env, old: Address, new: Address) -> bool {
        RWA::recover_balance(e, &old, &new)
    }
    pub fn set_address_frozen(e: &Env, who: Address, f: bool) {
        RWA::set_address_frozen(e, &who, f)
    }
    pub fn freeze_partial(e: &Env, who: Address, amount: i128) {
        RWA::freeze_partial_tokens(e, &who, amount)
    }
    pub fn unfreeze_partial(e: &Env, who: Address, amount: i128) {
        RWA::unfreeze_partial_tokens(e, &who, amount)
    }
    pub fn is_frozen(e: &Env, who: Address) -> bool {
        RWA::is_frozen(e, &who)
    }
    pub fn frozen_tokens(e: &Env, who: Address) -> i128 {
        RWA::get_frozen_tokens(e, &who)
    }
    pub fn pause(e: &Env) {
        pausable::pause(e)
    }
    pub fn unpause(e: &Env) {
        pausable::unpause(e)
    }
    pub fn paused(e: &Env) -> bool {
        pausable::paused(e)
    }
}
#[contractimpl(contracttrait)]
impl FungibleToken for Rwa {
    type ContractType = RWA;
}

// ---- stub compliance: scripted answers, durable notification counters, trap in the post-hooks
#[contract]
pub struct Compl;
fn bump(e: &Env, k: soroban_sdk::Symbol, from: Option<Address>, to: Option<Address>, amount: i128, token: Address) {
    let n: u32 = e.storage().persistent().get(&k).unwrap_or(0);
    e.storage().persistent().set(&k, &(n + 1));
    e.storage().persistent().set(&(k, symbol_short!("last")), &(from, to, amount, token));
    if e.storage().instance().get(&symbol_short!("trap")).unwrap_or(false) {
        panic!("scripted compliance hook trap");
    }
}
#[contractimpl]
impl Compl {
    /// the question is recorded too (who is asked about matters: real compliance rules depend on the direction)
    pub fn can_transfer(e: &Env, from: Address, to: Address, amount: i128, token: Address) -> bool {
        e.storage().persistent().set(&(symbol_short!("ctq"), symbol_short!("last")), &(Some(from), Some(to), amount, token));
        e.storage().instance().get(&symbol_short!("ct")).unwrap_or(true)
    }
    pub fn can_create(e: &Env, to: Address, amount: i128, token: Address) -> bool {
        e.storage().persistent().set(&(symbol_short!("ccq"), symbol_short!("last")), &(None::<Address>, Some(to), amount, token));
        e.storage().instance().get(&symbol_short!("cc")).unwrap_or(true)
    }
    pub fn transferred(e: &Env, from: Address, to: Address, amount: i128, token: Address) {
        bump(e, symbol_short!("tr"), Some(from), Some(to), amount, token)
    }
    pub fn created(e: &Env, to: Address, amount: i128, token: Address) {
        bump(e, symbol_short!("cr"), None, Some(to), amount, token)
    }
    pub fn destroyed(e: &Env, from: Address, amount: i128, token: Address) {
        bump(e, symbol_short!("de"), Some(from), None, amount, token)
    }
    pub fn script(e: &Env, ct: bool, cc: bool, trap: bool) {
        e.storage().instance().set(&symbol_short!("ct"), &ct);
        e.storage().instance().set(&symbol_short!("cc"), &cc);
        e.storage().instance().set(&symbol_short!("trap"), &trap);
    }
    pub fn count(e: &Env, k: soroban_sdk::Symbol) -> u32 {
        e.storage().persistent().get(&k).unwrap_or(0)
    }
    pub fn last(e: &Env, k: soroban_sdk::Symbol) -> (Option<Address>, Option<Address>, i128, Address) {
        e.storage().persistent().get(&(k, symbol_short!("last"))).unwrap()
    }
}
#[contract]
pub struct Idv;
#[contractimpl]
impl Idv {
    pub fn verify_identity(e: &Env, account: Address) {
        if e.storage().persistent().get(&account).unwrap_or(false) {
            panic!("identity verification failed (scripted)");
        }
    }
    pub fn recovery_target(e: &Env, old: Address) -> Option<Address> {
        e.storage().persistent().get(&(symbol_short!("rt"), old))
    }
    pub fn set_failing(e: &Env, account: Address, failing: bool) {
        e.storage().persistent().set(&account, &failing);
    }
    pub fn set_target(e: &Env, old: Address, new: Address) {
        e.storage().persistent().set(&(symbol_short!("rt"), old), &new);
    }
}

#[derive(Clone, Debug, Serialize, Deserialize)]
pub enum Step {
    /// the clock (inserted by the core's clock faults)
    Wait { n: u32 },
    Mint { to: usize, #[serde(with = "i128s")] amt: i128 },
    Transfer { from: usize, to: usize, #[serde(with = "i128s")] amt: i128, signed: bool },
    TransferFrom { spender: usize, from: usize, to: usize, #[serde(with = "i128s")] amt: i128, signed: bool },
    Approve { owner: usize, spender: usize, #[serde(with = "i128s")] amt: i128 },
    Forced { from: usize, to: usize, #[serde(with = "i128s")] amt: i128 },
    Burn { who: usize, #[serde(with = "i128s")] amt: i128 },
    Recover { old: usize, new: usize },
    Freeze { who: usize, on: bool },
    FreezePartial { who: usize, #[serde(with = "i128s")] amt: i128 },
    UnfreezePartial { who: usize, #[serde(with = "i128s")] amt: i128 },
    Pause,
    Unpause,
    SetIdentity { who: usize, ok: bool },
    SetCompliance { can_transfer: bool, can_create: bool, trap: bool },
    SetTarget { old: usize, new: usize },
}
#[derive(Clone, Debug, Serialize, Deserialize)]
pub struct Cfg {
    pub actors: usize,
    pub start_ledger: u32,
}

#[derive(Clone, Debug, Default)]
struct Model {
    bal: BTreeMap<usize, i128>,
    frozen: BTreeMap<usize, i128>,
    af: BTreeMap<usize, bool>,
    allow: BTreeMap<(usize, usize), i128>,
    id_bad: BTreeMap<usize, bool>,
    target: BTreeMap<usize, usize>,
    paused: bool,
    ct: bool,
    cc: bool,
    trap: bool,
    supply: i128,
    n_tr: u32,
    n_cr: u32,
    n_de: u32,
}
impl Model {
    fn b(&self, a: usize) -> i128 {
        *self.bal.get(&a).unwrap_or(&0)
    }
    fn f(&self, a: usize) -> i128 {
        *self.frozen.get(&a).unwrap_or(&0)
    }
    fn isf(&self, a: usize) -> bool {
        *self.af.get(&a).unwrap_or(&false)
    }
    fn idok(&self, a: usize) -> bool {
        !*self.id_bad.get(&a).unwrap_or(&false)
    }
    fn gates(&self, from: usize, to: usize, amt: i128) -> bool {
        !self.paused && !self.isf(from) && !self.isf(to) && amt >= 0 && self.b(from) - self.f(from) >= amt && self.idok(from) && self.idok(to) && self.ct
    }
    fn mv(&mut self, from: usize, to: usize, amt: i128) {
        *self.bal.entry(from).or_insert(0) -= amt;
        *self.bal.entry(to).or_insert(0) += amt;
    }
    fn unfreeze_for(&mut self, who: usize, amt: i128) {
        let free = self.b(who) - self.f(who);
        if free < amt {
            *self.frozen.entry(who).or_insert(0) -= amt - free;
        }
    }
    fn apply(&mut self, s: &Step) -> bool {
        match *s {
            Step::Wait { .. } => true,
            Step::Mint { to, amt } => {
                if !(self.idok(to) && self.cc && amt >= 0 && self.supply.checked_add(amt).is_some() && !self.trap) {
                    return false;
                }
                self.supply += amt;
                *self.bal.entry(to).or_insert(0) += amt;
                self.n_cr += 1;
                true
            }
            Step::Transfer { from, to, amt, signed } => {
                if !(signed && self.gates(from, to, amt) && !self.trap) {
                    return false;
                }
                self.mv(from, to, amt);
                self.n_tr += 1;
                true
            }
            Step::TransferFrom { spender, from, to, amt, signed } => {
                let al = *self.allow.get(&(from, spender)).unwrap_or(&0);
                if !(signed && self.gates(from, to, amt) && al >= amt && !self.trap) {
                    return false;
                }
                if amt > 0 {
                    self.allow.insert((from, spender), al - amt);
                }
                self.mv(from, to, amt);
                self.n_tr += 1;
                true
            }
            Step::Approve { owner, spender, amt } => {
                if amt < 0 {
                    return false;
                }
                self.allow.insert((owner, spender), amt);
                true
            }
            Step::Forced { from, to, amt } => {
                if !(amt >= 0 && self.b(from) >= amt && !self.trap) {
                    return false;
                }
                self.unfreeze_for(from, amt);
                self.mv(from, to, amt);
                self.n_tr += 1;
                true
            }
            Step::Burn { who, amt } => {
                if !(amt >= 0 && self.b(who) >= amt && !self.trap) {
                    return false;
                }
                self.unfreeze_for(who, amt);
                *self.bal.entry(who).or_insert(0) -= amt;
                self.supply -= amt;
                self.n_de += 1;
                true
            }
            Step::Recover { old, new } => {
                if !(self.idok(new) && self.target.get(&old) == Some(&new)) {
                    return false;
                }
                let lost = self.b(old);
                if lost == 0 {
                    return true; // returns false, nothing moves
                }
                if self.trap {
                    return false;
                }
                let fz = self.f(old);
                let was = self.isf(old);
                self.unfreeze_for(old, lost);
                self.mv(old, new, lost);
                self.n_tr += 1;
                if fz > 0 {
                    *self.frozen.entry(new).or_insert(0) += fz;
                }
                if was {
                    self.af.insert(new, true);
                }
                true
            }
            Step::Freeze { who, on } => {
                self.af.insert(who, on);
                true
            }
            Step::FreezePartial { who, amt } => {
                if amt < 0 {
                    return false;
                }
                match self.f(who).checked_add(amt) {
                    Some(nf) if nf <= self.b(who) => {
                        self.frozen.insert(who, nf);
                        true
                    }
                    _ => false,
                }
            }
            Step::UnfreezePartial { who, amt } => {
                if amt < 0 || self.f(who) < amt {
                    return false;
                }
                *self.frozen.entry(who).or_insert(0) -= amt;
                true
            }
            Step::Pause => {
                if self.paused {
                    return false;
                }
                self.paused = true;
                true
            }
            Step::Unpause => {
                if !self.paused {
                    return false;
                }
                self.paused = false;
                true
            }
            Step::SetIdentity { who, ok } => {
                self.id_bad.insert(who, !ok);
                true
            }
            Step::SetCompliance { can_transfer, can_create, trap } => {
                self.ct = can_transfer;
                self.cc = can_create;
                self.trap = trap;
                true
            }
            Step::SetTarget { old, new } => {
                self.target.insert(old, new);
                true
            }
        }
    }
}

pub struct RwaCheck;

impl Check for RwaCheck {
    type Cfg = Cfg;
    type Step = Step;
    fn id(&self) -> &'static str {
        "rwa"
    }
    fn runs(&self, tier: Tier) -> u64 {
        if tier == Tier::Quick {
            3000
        } else {
            60000
        }
    }
    fn components(&self) -> serde_json::Value {
        serde_json::json!({"real": ["stellar_tokens::rwa::RWA::* behind a wrapper", "pausable", "fungible Base (allowances, update)"], "stub": ["Compliance (scripted can_*, durable notification counters, hook trap)", "IdentityVerifier (per-account pass/fail, recovery map)", "Wallet"]})
    }
    fn clock_step(&self, n: u32) -> Option<Step> {
        Some(Step::Wait { n })
    }
    fn clock_budget(&self) -> u64 {
        6000000
    }
    fn probes(&self, _prop: &str) -> std::vec::Vec<&'static str> {
        vec!["probe.transfer_from_under_closed_gate", "probe.transfer_under_closed_gate"]
    }
    fn dup_ok(&self, _s: &Step) -> bool {
        true
    }
    fn reorder_ok(&self) -> bool {
        true
    }
    fn property_of(&self, check: &str) -> std::vec::Vec<&'static str> {
        if check.starts_with("events.") || check.starts_with("conserve.") {
            vec!["C01"]
        } else if check.starts_with("auth.") || check.starts_with("allowance.") {
            vec!["C02"]
        } else if check.starts_with("pause.") {
            vec!["C04", "C16"]
        } else if check == "fail.no_trace" || check == "state.model_eq" {
            vec!["C01", "C02", "C04"]
        } else {
            vec!["C04"]
        }
    }
    fn generate(&self, rng: &mut Rng, tier: Tier) -> (Cfg, std::vec::Vec<Step>) {
        let cfg = Cfg { actors: 3 + rng.below(3) as usize, start_ledger: 10 + rng.below(10_000) as u32 };
        let n = cfg.actors as u64;
        let nsteps = if tier == Tier::Quick { 30 + rng.below(40) } else { 30 + rng.below(90) } as usize;
        let mut m = Model { ct: true, cc: true, ..Default::default() };
        let gate_flip = 8 + rng.below(14);
        let mut steps = vec![];
        for k in 0..nsteps {
            let any = |rng: &mut Rng| rng.below(n) as usize;
            let holders: std::vec::Vec<usize> = (0..cfg.actors).filter(|a| m.b(*a) > 0).collect();
            let holder = |rng: &mut Rng| if holders.is_empty() || rng.chance(10) { rng.below(n) as usize } else { *rng.pick(&holders) };
            let amt = |rng: &mut Rng, m: &Model, who: usize| -> i128 {
                let (b, f) = (m.b(who), m.f(who));
                match rng.below(10) {
                    0 => 0,
                    1 => b,
                    2 => b - f,
                    3 => b - f + 1,
                    4 => b + 1,
                    5 => -1,
                    6 => (b - f - 1).max(0),
                    _ => if b > 0 { 1 + rng.below((b.min(1_000_000)) as u64) as i128 / (1 + rng.below(3) as i128) } else { 1 + rng.below(50) as i128 },
                }
            };
            let s = if k < 2 {
                Step::Mint { to: any(rng), amt: 100 + rng.below(100_000) as i128 }
            } else if rng.chance(gate_flip) {
                match rng.below(6) {
                    0 => if m.paused { Step::Unpause } else { Step::Pause },
                    1 => Step::Freeze { who: any(rng), on: rng.chance(55) },
                    2 => Step::SetIdentity { who: any(rng), ok: rng.chance(50) },
                    3 => Step::SetCompliance { can_transfer: rng.chance(60), can_create: rng.chance(70), trap: rng.chance(15) },
                    4 => {
                        let who = holder(rng);
                        Step::FreezePartial { who, amt: amt(rng, &m, who) }
                    }
                    _ => Step::SetTarget { old: any(rng), new: any(rng) },
                }
            } else {
                match rng.below(100) {
                    0..=9 => Step::Mint { to: any(rng), amt: if rng.chance(10) { -5 } else { 1 + rng.below(100_000) as i128 } },
                    10..=34 => {
                        let from = holder(rng);
                        Step::Transfer { from, to: any(rng), amt: amt(rng, &m, from), signed: !rng.chance(5) }
                    }
                    35..=54 => {
                        let ps: std::vec::Vec<(usize, usize)> = m.allow.iter().filter(|(_, v)| **v > 0).map(|(k, _)| *k).collect();
                        let (from, spender) = if ps.is_empty() || rng.chance(15) { (holder(rng), any(rng)) } else { *rng.pick(&ps) };
                        // a third of the allowance-based transfers aim at the allowance itself: exactly it, one more, one less
                        let al = *m.allow.get(&(from, spender)).unwrap_or(&0);
                        let a = if al > 0 && al < 1_000_000_000 && rng.chance(35) { (al + rng.below(3) as i128 - 1).max(0) } else { amt(rng, &m, from) };
                        Step::TransferFrom { spender, from, to: any(rng), amt: a, signed: !rng.chance(5) }
                    }
                    55..=64 => {
                        let owner = holder(rng);
                        // no allowance / one that never binds / one below the owner's balance (so that it does bind)
                        let a = match rng.below(10) { 0 => 0, 1..=4 => 1_000_000_000, _ => 1 + rng.below(m.b(owner).clamp(1, 1_000_000) as u64) as i128 };
                        Step::Approve { owner, spender: any(rng), amt: a }
                    }
                    65..=72 => {
                        let from = holder(rng);
                        Step::Forced { from, to: any(rng), amt: amt(rng, &m, from) }
                    }
                    73..=79 => {
                        let who = holder(rng);
                        Step::Burn { who, amt: amt(rng, &m, who) }
                    }
                    80..=84 => {
                        let ts: std::vec::Vec<(usize, usize)> = m.target.iter().map(|(a, b)| (*a, *b)).filter(|(a, b)| a != b).collect();
                        let (old, new) = if ts.is_empty() || rng.chance(15) { let o = any(rng); (o, (o + 1) % cfg.actors) } else { *rng.pick(&ts) };
                        Step::Recover { old, new }
                    }
                    85..=90 => {
                        let who = holder(rng);
                        Step::FreezePartial { who, amt: amt(rng, &m, who) }
                    }
                    91..=95 => {
                        let who = holder(rng);
                        let f = m.f(who);
                        Step::UnfreezePartial { who, amt: match rng.below(4) { 0 => f, 1 => f + 1, 2 => -1, _ => f / 2 } }
                    }
                    96..=97 => if m.paused { Step::Unpause } else { Step::Pause },
                    _ => if rng.chance(50) { Step::Pause } else { Step::Unpause },
                }
            };
            m.apply(&s);
            steps.push(s);
        }
        (cfg, steps)
    }
    fn execute(&self, cfg: &Cfg, steps: &[Step], st: &mut Stats) -> Result<(), Violation> {
        let w = W::new(cfg.actors, cfg.start_ledger, 16);
        let e = &w.e;
        let a = |i: usize| w.actors[i].clone();
        let comp = e.register(Compl, ());
        let idv = e.register(Idv, ());
        let cc = ComplClient::new(e, &comp);
        let ic = IdvClient::new(e, &idv);
        let id = e.register(Rwa, (comp.clone(), idv.clone()));
        let c = RwaClient::new(e, &id);
        let mut m = Model { ct: true, cc: true, ..Default::default() };
        let taddr: soroban_sdk::xdr::ScAddress = (&id).try_into().unwrap();
        let mut ev_bal: BTreeMap<usize, i128> = BTreeMap::new();
        for (i, s) in steps.iter().enumerate() {
            let mut parked: Option<Violation> = None;
            if let Step::Wait { n } = s {
                w.advance(*n);
                st.ledgers += *n as u64;
                st.hit("clock.advance");
                continue;
            }
            w.set_auth(&[]);
            let before = w.storage_digest(&[&id, &comp]);
            let gate_closed = |m: &Model, from: usize, to: usize, amt: i128| !m.gates(from, to, amt);
            let mut under_closed_gate = false;
            let (kind, got) = match s {
                Step::Wait { .. } => unreachable!("handled above"),
                Step::Mint { to, amt } => ("mint", c.try_mint(&a(*to), amt).is_ok()),
                Step::Transfer { from, to, amt, signed } => {
                    if *signed {
                        w.set_auth(&[(*from, Inv::new(&id, "transfer", (a(*from), a(*to), *amt).into_val(e)))]);
                    }
                    under_closed_gate = gate_closed(&m, *from, *to, *amt);
                    ("transfer", c.try_transfer(&a(*from), &a(*to), amt).is_ok())
                }
                Step::TransferFrom { spender, from, to, amt, signed } => {
                    if *signed {
                        w.set_auth(&[(*spender, Inv::new(&id, "transfer_from", (a(*spender), a(*from), a(*to), *amt).into_val(e)))]);
                    }
                    under_closed_gate = gate_closed(&m, *from, *to, *amt);
                    ("transfer_from", c.try_transfer_from(&a(*spender), &a(*from), &a(*to), amt).is_ok())
                }
                Step::Approve { owner, spender, amt } => {
                    let live = e.ledger().max_live_until_ledger();
                    w.set_auth(&[(*owner, Inv::new(&id, "approve", (a(*owner), a(*spender), *amt, live).into_val(e)))]);
                    ("approve", c.try_approve(&a(*owner), &a(*spender), amt, &live).is_ok())
                }
                Step::Forced { from, to, amt } => ("forced_transfer", c.try_forced_transfer(&a(*from), &a(*to), amt).is_ok()),
                Step::Burn { who, amt } => ("burn", c.try_burn(&a(*who), amt).is_ok()),
                Step::Recover { old, new } => ("recover_balance", c.try_recover_balance(&a(*old), &a(*new)).is_ok()),
                Step::Freeze { who, on } => ("set_address_frozen", c.try_set_address_frozen(&a(*who), on).is_ok()),
                Step::FreezePartial { who, amt } => ("freeze_partial", c.try_freeze_partial(&a(*who), amt).is_ok()),
                Step::UnfreezePartial { who, amt } => ("unfreeze_partial", c.try_unfreeze_partial(&a(*who), amt).is_ok()),
                Step::Pause => ("pause", c.try_pause().is_ok()),
                Step::Unpause => ("unpause", c.try_unpause().is_ok()),
                Step::SetIdentity { who, ok } => {
                    ic.set_failing(&a(*who), &!*ok);
                    st.hit("collab.identity_verdict_scripted");
                    ("set_identity", true)
                }
                Step::SetCompliance { can_transfer, can_create, trap } => {
                    cc.script(can_transfer, can_create, trap);
                    st.hit("collab.compliance_scripted");
                    ("set_compliance", true)
                }
                Step::SetTarget { old, new } => {
                    ic.set_target(&a(*old), &a(*new));
                    ("set_target", true)
                }
            };
            // C01 for the RWA flavour: the token's own mint / burn / transfer events replay to every balance
            if got {
                for ev in w.last_events().iter().filter(|x| x.contract == taddr) {
                    let bad = || violation("events.replay_balances", "malformed", i, format!("event {} of {s:?} does not name its parties / amount as documented", ev.name));
                    match ev.name.as_str() {
                        "mint" => *ev_bal.entry(w.party(ev, 0).ok_or_else(bad)?).or_insert(0) += ev.amt("amount").ok_or_else(bad)?,
                        "burn" => *ev_bal.entry(w.party(ev, 0).ok_or_else(bad)?).or_insert(0) -= ev.amt("amount").ok_or_else(bad)?,
                        "transfer" => {
                            *ev_bal.entry(w.party(ev, 0).ok_or_else(bad)?).or_insert(0) -= ev.amt("amount").ok_or_else(bad)?;
                            *ev_bal.entry(w.party(ev, 1).ok_or_else(bad)?).or_insert(0) += ev.amt("amount").ok_or_else(bad)?;
                        }
                        _ => {}
                    }
                }
            }
            if matches!(s, Step::Transfer { signed: false, .. } | Step::TransferFrom { signed: false, .. }) {
                st.hit("fault.auth_missing");
            }
            if m.trap && matches!(s, Step::Mint { .. } | Step::Transfer { .. } | Step::TransferFrom { .. } | Step::Forced { .. } | Step::Burn { .. } | Step::Recover { .. }) {
                st.hit("fault.compliance_hook_trap_after_balance_write");
            }
            if !m.ct && matches!(s, Step::Transfer { .. } | Step::TransferFrom { .. }) {
                st.hit("fault.compliance_denies");
            }
            if under_closed_gate {
                st.hit(if kind == "transfer" { "probe.transfer_under_closed_gate" } else { "probe.transfer_from_under_closed_gate" });
            }
            let snap_allow = m.allow.clone();
            let snap_paused = m.paused;
            let exp = m.apply(s);
            let is_collab = matches!(s, Step::SetIdentity { .. } | Step::SetCompliance { .. } | Step::SetTarget { .. });
            if !is_collab {
                st.tx(kind, got);
            }
            if got != exp {
                // attribute the refusal reason: authorization / allowance (C02) before the gates (C04)
                let unsigned = matches!(s, Step::Transfer { signed: false, .. } | Step::TransferFrom { signed: false, .. });
                let short_allowance = match s {
                    Step::TransferFrom { spender, from, amt, .. } => *snap_allow.get(&(*from, *spender)).unwrap_or(&0) < *amt,
                    _ => false,
                };
                let check = match (kind, got) {
                    ("transfer" | "transfer_from", true) if unsigned => "auth.principal_must_authorize",
                    ("transfer_from", true) if short_allowance => "auth.debit_needs_holder_or_allowance",
                    // went through although the token is paused: the pausable clause proper (C16 as well as C04)
                    ("transfer" | "transfer_from" | "mint", true) if snap_paused => "pause.gated_fail_while_paused",
                    ("transfer", true) => "gate.transfer",
                    ("transfer_from", true) => "gate.transfer_from",
                    ("mint", true) => "gate.mint",
                    (_, true) => "refine.must_fail",
                    (_, false) => "live.open_gates_succeed",
                };
                return Err(violation(check, kind, i, format!("{s:?}: real {got}, model {exp}; paused={} ct={} cc={} trap={} model={m:?}", m.paused, m.ct, m.cc, m.trap)));
            }
            if !got && !is_collab && w.storage_digest(&[&id, &comp]) != before {
                self.clause(st, &mut parked, violation("fail.no_trace", kind, i, format!("state changed by refused {s:?}")))?;
            }
            // invariants
            for x in 0..cfg.actors {
                let (b, f, af) = (c.balance(&a(x)), c.frozen_tokens(&a(x)), c.is_frozen(&a(x)));
                if *ev_bal.get(&x).unwrap_or(&0) != b && got == exp {
                    self.clause(st, &mut parked, violation("events.replay_balances", kind, i, format!("actor {x}: events give {}, balance {b} after {s:?}", ev_bal.get(&x).unwrap_or(&0))))?;
                }
                if f < 0 || f > b {
                    self.clause(st, &mut parked, violation("inv.frozen_le_balance", kind, i, format!("actor {x}: frozen {f} balance {b} after {s:?}")))?;
                }
                if b != m.b(x) || f != m.f(x) || af != m.isf(x) {
                    let check = match kind { "forced_transfer" | "burn" => "supervisory.min_unfreeze", "recover_balance" => "recover.whole_balance_to_target", _ => "state.model_eq" };
                    self.clause(st, &mut parked, violation(check, kind, i, format!("actor {x}: balance {b}/{} frozen {f}/{} addr-frozen {af}/{} after {s:?}", m.b(x), m.f(x), m.isf(x))))?;
                }
            }
            // allowances (C02): the getter equals what was approved minus what was spent
            for o in 0..cfg.actors {
                for sp in 0..cfg.actors {
                    let al = c.allowance(&a(o), &a(sp));
                    if al != *m.allow.get(&(o, sp)).unwrap_or(&0) {
                        self.clause(st, &mut parked, violation("allowance.model_eq", kind, i, format!("allowance({o},{sp}) = {al}, model {:?} after {s:?}", m.allow.get(&(o, sp)))))?;
                    }
                }
            }
            let (tr, cr, de) = (cc.count(&symbol_short!("tr")), cc.count(&symbol_short!("cr")), cc.count(&symbol_short!("de")));
            if (tr, cr, de) != (m.n_tr, m.n_cr, m.n_de) {
                self.clause(st, &mut parked, violation("notify.exactly_once", kind, i, format!("compliance saw transferred/created/destroyed = {tr}/{cr}/{de}, expected {}/{}/{} after {s:?}", m.n_tr, m.n_cr, m.n_de)))?;
            }
            if got {
                // exact parties and amount of the last notification
                let chk = |k: soroban_sdk::Symbol, f: Option<usize>, t: Option<usize>, amt: i128| -> bool {
                    let l = cc.last(&k);
                    l.0 == f.map(|x| a(x)) && l.1 == t.map(|x| a(x)) && l.2 == amt && l.3 == id
                };
                let ok = match s {
                    Step::Transfer { from, to, amt, .. } | Step::TransferFrom { from, to, amt, .. } | Step::Forced { from, to, amt } => chk(symbol_short!("tr"), Some(*from), Some(*to), *amt),
                    Step::Mint { to, amt } => chk(symbol_short!("cr"), None, Some(*to), *amt),
                    Step::Burn { who, amt } => chk(symbol_short!("de"), Some(*who), None, *amt),
                    _ => true,
                };
                if !ok {
                    self.clause(st, &mut parked, violation("notify.exactly_once", "args", i, format!("wrong parties/amount notified for {s:?}")))?;
                }
                // and the approval was asked for this very movement: same parties in the same direction, same amount
                let asked = match s {
                    Step::Transfer { from, to, amt, .. } | Step::TransferFrom { from, to, amt, .. } => chk(symbol_short!("ctq"), Some(*from), Some(*to), *amt),
                    Step::Mint { to, amt } => chk(symbol_short!("ccq"), None, Some(*to), *amt),
                    _ => true,
                };
                if !asked {
                    self.clause(st, &mut parked, violation("gate.compliance_asked_about_this_transfer", kind, i, format!("can_transfer / can_create was asked about other parties or another amount than {s:?}")))?;
                }
            }
            if c.paused() != m.paused {
                self.clause(st, &mut parked, violation("state.model_eq", "paused", i, "paused flag".into()))?;
            }
            if let Some(v) = parked.take() {
                return Err(v);
            }
            st.state(&(m.paused, m.ct, m.cc, m.trap, m.af.values().filter(|x| **x).count(), m.frozen.values().filter(|x| **x > 0).count()));
        }
        Ok(())
    }
}
