//! C04 world (ii) + C20 compliance modules: the library's modular compliance contract (hooks, bound-token check)
//! with scripted *modules*, and the library's identity verifier + registry storage + (empty) claim-topics registry.

use crate::checks::rwa::{Rwa, RwaClient};
use crate::core::*;
use crate::world::{Base as W, Inv};
use serde::{Deserialize, Serialize};
use soroban_sdk::{contract, contractimpl, symbol_short, vec as svec, Address, Env, IntoVal, Map, String as SString, Vec};
use std::collections::{BTreeMap, BTreeSet};
use stellar_tokens::rwa::{
    claim_topics_and_issuers::storage as cti,
    compliance::{storage as cs, ComplianceHook},
    identity_registry_storage::{self as irs, CountryData, CountryRelation, IdentityType, IndividualCountryRelation},
    identity_verifier::storage as idv,
    utils::token_binder as tb,
};

#[contract]
pub struct RealCompl;
#[contractimpl]
impl RealCompl {
    pub fn add_module_to(e: &Env, hook: ComplianceHook, module: Address) { cs::add_module_to(e, hook, module) }
    pub fn remove_module_from(e: &Env, hook: ComplianceHook, module: Address) { cs::remove_module_from(e, hook, module) }
    pub fn get_modules_for_hook(e: &Env, hook: ComplianceHook) -> Vec<Address> { cs::get_modules_for_hook(e, hook) }
    pub fn is_module_registered(e: &Env, hook: ComplianceHook, module: Address) -> bool { cs::is_module_registered(e, hook, module) }
    pub fn bind(e: &Env, token: Address) { tb::bind_token(e, &token) }
    pub fn unbind(e: &Env, token: Address) { tb::unbind_token(e, &token) }
    pub fn transferred(e: &Env, from: Address, to: Address, amount: i128, token: Address) { cs::transferred(e, from, to, amount, token) }
    pub fn created(e: &Env, to: Address, amount: i128, token: Address) { cs::created(e, to, amount, token) }
    pub fn destroyed(e: &Env, from: Address, amount: i128, token: Address) { cs::destroyed(e, from, amount, token) }
    pub fn can_transfer(e: &Env, from: Address, to: Address, amount: i128, token: Address) -> bool { cs::can_transfer(e, from, to, amount, token) }
    pub fn can_create(e: &Env, to: Address, amount: i128, token: Address) -> bool { cs::can_create(e, to, amount, token) }
}
#[contract]
pub struct Module;
fn inc(e: &Env, k: soroban_sdk::Symbol) { let n: u32 = e.storage().persistent().get(&k).unwrap_or(0); e.storage().persistent().set(&k, &(n + 1)); }
#[contractimpl]
impl Module {
    pub fn on_transfer(e: &Env, f: Address, t: Address, a: i128, tok: Address) { e.storage().persistent().set(&symbol_short!("trl"), &(f, t, a, tok)); inc(e, symbol_short!("tr")) }
    pub fn on_created(e: &Env, _t: Address, _a: i128, _tok: Address) { inc(e, symbol_short!("cr")) }
    pub fn on_destroyed(e: &Env, _f: Address, _a: i128, _tok: Address) { inc(e, symbol_short!("de")) }
    pub fn can_transfer(e: &Env, f: Address, t: Address, a: i128, tok: Address) -> bool { e.storage().persistent().set(&symbol_short!("ctl"), &(f, t, a, tok)); e.storage().instance().get(&symbol_short!("ct")).unwrap_or(true) }
    /// what the module was last asked (can_transfer) and told (on_transfer)
    pub fn last(e: &Env, k: soroban_sdk::Symbol) -> Option<(Address, Address, i128, Address)> { e.storage().persistent().get(&k) }
    pub fn can_create(e: &Env, _t: Address, _a: i128, _tok: Address) -> bool { e.storage().instance().get(&symbol_short!("cc")).unwrap_or(true) }
    pub fn script(e: &Env, ct: bool, cc: bool) { e.storage().instance().set(&symbol_short!("ct"), &ct); e.storage().instance().set(&symbol_short!("cc"), &cc); }
    pub fn counts(e: &Env) -> (u32, u32, u32) { let g = |k| e.storage().persistent().get(&k).unwrap_or(0u32); (g(symbol_short!("tr")), g(symbol_short!("cr")), g(symbol_short!("de"))) }
}
#[contract]
pub struct CtiEmpty;
#[contractimpl]
impl CtiEmpty { pub fn get_claim_topics_and_issuers(e: &Env) -> Map<u32, Vec<Address>> { cti::get_claim_topics_and_issuers(e) } }
#[contract]
pub struct IrsReal;
#[contractimpl]
impl IrsReal {
    pub fn add(e: &Env, account: Address, identity: Address) { irs::add_identity(e, &account, &identity, IdentityType::Individual, &svec![e, CountryData { country: CountryRelation::Individual(IndividualCountryRelation::Residence(1)), metadata: None }]) }
    pub fn remove(e: &Env, account: Address) { irs::remove_identity(e, &account) }
    pub fn stored_identity(e: &Env, account: Address) -> Address { irs::stored_identity(e, &account) }
    pub fn get_recovered_to(e: &Env, old: Address) -> Option<Address> { irs::get_recovered_to(e, &old) }
    pub fn recover_identity(e: &Env, old: Address, new: Address) { irs::recover_identity(e, &old, &new) }
}
#[contract]
pub struct IdvReal;
#[contractimpl]
impl IdvReal {
    pub fn __constructor(e: &Env, c: Address, r: Address) { idv::set_claim_topics_and_issuers(e, &c); idv::set_identity_registry_storage(e, &r); }
    pub fn verify_identity(e: &Env, account: Address) { idv::verify_identity(e, &account) }
    pub fn recovery_target(e: &Env, old: Address) -> Option<Address> { idv::recovery_target(e, &old) }
}
/// identity contract that holds no claims (no topic is required in this world)
#[contract]
pub struct NoClaims;
#[contractimpl]
impl NoClaims { pub fn get_claim_ids_by_topic(e: &Env, _t: u32) -> Vec<soroban_sdk::BytesN<32>> { Vec::new(e) } }

const HOOKS: [ComplianceHook; 5] = [ComplianceHook::Transferred, ComplianceHook::Created, ComplianceHook::Destroyed, ComplianceHook::CanTransfer, ComplianceHook::CanCreate];

#[derive(Clone, Debug, Serialize, Deserialize)]
pub enum Step {
    /// the clock (inserted by the core's clock faults)
    Wait { n: u32 },
    AddModule { hook: usize, m: usize },
    RemoveModule { hook: usize, m: usize },
    Script { m: usize, ct: bool, cc: bool },
    Bind { on: bool },
    Register { who: usize, on: bool },
    Mint { to: usize, #[serde(with = "i128s")] amt: i128 },
    Transfer { from: usize, to: usize, #[serde(with = "i128s")] amt: i128 },
    Burn { who: usize, #[serde(with = "i128s")] amt: i128 },
    /// supervisory transfer (no identity / can_transfer gate, but the compliance contract is still told)
    Forced { from: usize, to: usize, #[serde(with = "i128s")] amt: i128 },
    /// identity registry: the identity of `old` moves to `new`, `old` is marked recovered
    IdRecover { old: usize, new: usize },
    /// token: recover_balance(old, new) through the REAL verifier's recovery_target (registry's recovered-to link)
    TokRecover { old: usize, new: usize },
}
#[derive(Clone, Debug, Serialize, Deserialize)]
pub struct Cfg { pub actors: usize, #[serde(default)] pub many_modules: bool }
#[derive(Clone, Debug, Default)]
struct Model { hooks: BTreeMap<usize, std::vec::Vec<usize>>, ct: BTreeMap<usize, bool>, cc: BTreeMap<usize, bool>, bound: bool, reg: BTreeSet<usize>, rec: BTreeMap<usize, usize>, bal: BTreeMap<usize, i128>, counts: BTreeMap<usize, (u32, u32, u32)> }
impl Model {
    fn mods(&self, h: usize) -> std::vec::Vec<usize> { self.hooks.get(&h).cloned().unwrap_or_default() }
    fn b(&self, a: usize) -> i128 { *self.bal.get(&a).unwrap_or(&0) }
}
pub struct RwaReal;
impl Check for RwaReal {
    type Cfg = Cfg;
    type Step = Step;
    fn id(&self) -> &'static str { "rwa_real" }
    fn runs(&self, tier: Tier) -> u64 {
        if tier == Tier::Quick {
            2000
        } else {
            30000
        }
    }
    fn components(&self) -> serde_json::Value { serde_json::json!({"real": ["RWA token wrapper", "rwa::compliance::storage (hooks, bound-token check)", "rwa::utils::token_binder", "identity_verifier + identity_registry_storage + claim_topics_and_issuers (no required topic)"], "stub": ["compliance Modules (scripted can_*, durable counters)", "NoClaims identity contract", "Wallet"]}) }
    fn clock_step(&self, n: u32) -> Option<Step> {
        Some(Step::Wait { n })
    }
    fn probes(&self, _prop: &str) -> std::vec::Vec<&'static str> {
        vec!["probe.max_modules_reached", "probe.identity_recovered", "probe.balance_recovered_via_real_registry_link"]
    }
    fn generate(&self, rng: &mut Rng, tier: Tier) -> (Cfg, std::vec::Vec<Step>) {
        let cfg = Cfg { actors: 4, many_modules: rng.chance(10) };
        let nsteps = if tier == Tier::Quick { 30 + rng.below(30) } else { 30 + rng.below(70) } as usize;
        let mut steps = vec![Step::Bind { on: true }, Step::Register { who: 0, on: true }, Step::Register { who: 1, on: true }, Step::Mint { to: 0, amt: 10_000 }];
        if cfg.many_modules {
            // limit scenario: MAX_MODULES modules on one hook, one more refused, one removed, another admitted
            let h = rng.below(5) as usize;
            for k in 3..23usize { steps.push(Step::AddModule { hook: h, m: k }); }
            steps.push(Step::AddModule { hook: h, m: 23 });
            steps.push(Step::RemoveModule { hook: h, m: 3 + rng.below(20) as usize });
            steps.push(Step::AddModule { hook: h, m: 23 });
            steps.push(Step::AddModule { hook: h, m: 24 });
        }
        for _ in 0..nsteps {
            let m = rng.below(3) as usize;
            let who = rng.below(4) as usize;
            steps.push(match rng.below(100) {
                0..=17 => Step::AddModule { hook: rng.below(5) as usize, m },
                18..=25 => Step::RemoveModule { hook: rng.below(5) as usize, m },
                26..=33 => Step::Script { m, ct: rng.chance(65), cc: rng.chance(75) },
                34..=37 => Step::Bind { on: rng.chance(70) },
                38..=45 => Step::Register { who, on: rng.chance(70) },
                46..=58 => Step::Mint { to: who, amt: 1 + rng.below(500) as i128 },
                59..=81 => Step::Transfer { from: who, to: rng.below(4) as usize, amt: rng.below(300) as i128 },
                82..=84 => Step::Forced { from: who, to: rng.below(4) as usize, amt: rng.below(300) as i128 },
                85..=87 => Step::IdRecover { old: who, new: rng.below(4) as usize },
                88..=90 => Step::TokRecover { old: who, new: rng.below(4) as usize },
                _ => Step::Burn { who, amt: rng.below(200) as i128 },
            });
            // an identity recovery is usually followed by the balance recovery for the same pair (sometimes after another step)
            if let Some(Step::IdRecover { old, new }) = steps.last().cloned() {
                if rng.chance(70) {
                    if rng.chance(30) { steps.push(Step::Mint { to: old, amt: 1 + rng.below(100) as i128 }); }
                    steps.push(Step::TokRecover { old, new });
                }
            }
        }
        (cfg, steps)
    }
    fn dup_ok(&self, _s: &Step) -> bool {
        true
    }
    fn reorder_ok(&self) -> bool {
        true
    }
    fn property_of(&self, check: &str) -> std::vec::Vec<&'static str> {
        if check.starts_with("modules.") {
            vec!["C20"]
        } else {
            vec!["C04"]
        }
    }
    fn execute(&self, cfg: &Cfg, steps: &[Step], st: &mut Stats) -> Result<(), Violation> {
        let w = W::new(cfg.actors, 100, 16);
        let e = &w.e;
        let a = |i: usize| w.actors[i].clone();
        let comp = e.register(RealCompl, ());
        let cc = RealComplClient::new(e, &comp);
        let ctie = e.register(CtiEmpty, ());
        let irs_id = e.register(IrsReal, ());
        let idv_id = e.register(IdvReal, (ctie.clone(), irs_id.clone()));
        let ident = e.register(NoClaims, ());
        let tok = e.register(Rwa, (comp.clone(), idv_id.clone()));
        let c = RwaClient::new(e, &tok);
        let mods: std::vec::Vec<Address> = (0..if cfg.many_modules { 25 } else { 3 }).map(|_| e.register(Module, ())).collect();
        let mut m = Model::default();
        for (i, s) in steps.iter().enumerate() {
            let mut parked: Option<Violation> = None;
            if let Step::Wait { n } = s {
                w.advance(*n);
                st.ledgers += *n as u64;
                st.hit("clock.advance");
                continue;
            }
            w.set_auth(&[]);
            let before = w.storage_digest(&[&tok, &comp, &mods[0], &mods[1], &mods[2]]);
            let all_true = |m: &Model, hook: usize, tbl: &BTreeMap<usize, bool>| m.mods(hook).iter().all(|x| *tbl.get(x).unwrap_or(&true));
            let mut outcome: Option<(&str, bool, bool)> = None;
            match s {
                Step::Wait { .. } => unreachable!("handled above"),
                Step::AddModule { hook, m: k } => {
                    let g = cc.try_add_module_to(&HOOKS[*hook], &mods[*k]).is_ok();
                    let x = !m.mods(*hook).contains(k) && m.mods(*hook).len() < 20;
                    if m.mods(*hook).len() == 20 && !m.mods(*hook).contains(k) { st.hit("probe.max_modules_reached"); }
                    if x { m.hooks.entry(*hook).or_default().push(*k); }
                    outcome = Some(("add_module_to", g, x));
                }
                Step::RemoveModule { hook, m: k } => {
                    let g = cc.try_remove_module_from(&HOOKS[*hook], &mods[*k]).is_ok();
                    let x = m.mods(*hook).contains(k);
                    if x { m.hooks.get_mut(hook).unwrap().retain(|y| y != k); }
                    outcome = Some(("remove_module_from", g, x));
                }
                Step::Script { m: k, ct, cc: c2 } => { st.hit("collab.module_scripted"); ModuleClient::new(e, &mods[*k]).script(ct, c2); m.ct.insert(*k, *ct); m.cc.insert(*k, *c2); }
                Step::Bind { on } => {
                    let g = if *on { cc.try_bind(&tok).is_ok() } else { cc.try_unbind(&tok).is_ok() };
                    let x = *on != m.bound;
                    if x { m.bound = *on; }
                    outcome = Some(("bind", g, x));
                }
                Step::Register { who, on } => {
                    let ic = IrsRealClient::new(e, &irs_id);
                    let g = if *on { ic.try_add(&a(*who), &ident).is_ok() } else { ic.try_remove(&a(*who)).is_ok() };
                    // a recovered account can never be registered again
                    let x = *on != m.reg.contains(who) && !(*on && m.rec.contains_key(who));
                    if x { if *on { m.reg.insert(*who); } else { m.reg.remove(who); } }
                    outcome = Some(("register", g, x));
                }
                Step::Mint { to, amt } => {
                    let g = c.try_mint(&a(*to), amt).is_ok();
                    let x = m.reg.contains(to) && all_true(&m, 4, &m.cc) && m.bound;
                    if x { *m.bal.entry(*to).or_insert(0) += amt; for k in m.mods(1) { m.counts.entry(k).or_default().1 += 1; } }
                    outcome = Some(("mint", g, x));
                }
                Step::Transfer { from, to, amt } => {
                    w.set_auth(&[(*from, Inv::new(&tok, "transfer", (a(*from), a(*to), *amt).into_val(e)))]);
                    let g = c.try_transfer(&a(*from), &a(*to), amt).is_ok();
                    let x = m.reg.contains(from) && m.reg.contains(to) && m.b(*from) >= *amt && all_true(&m, 3, &m.ct) && m.bound;
                    if x { *m.bal.entry(*from).or_insert(0) -= amt; *m.bal.entry(*to).or_insert(0) += amt; for k in m.mods(0) { m.counts.entry(k).or_default().0 += 1; } }
                    if g && x {
                        // every module on the two transfer hooks was asked / told about exactly this movement
                        let want = Some((a(*from), a(*to), *amt, tok.clone()));
                        for (hook, key) in [(3usize, symbol_short!("ctl")), (0usize, symbol_short!("trl"))] {
                            for k in m.mods(hook) {
                                if ModuleClient::new(e, &mods[k]).last(&key) != want {
                                    return Err(violation("gate.compliance_asked_about_this_transfer", "module", i, format!("module {k} on hook {hook} saw other parties / amount than {s:?}")));
                                }
                            }
                        }
                    }
                    outcome = Some(("transfer", g, x));
                }
                Step::Forced { from, to, amt } => {
                    let g = c.try_forced_transfer(&a(*from), &a(*to), amt).is_ok();
                    let x = m.b(*from) >= *amt && m.bound;
                    if x { *m.bal.entry(*from).or_insert(0) -= amt; *m.bal.entry(*to).or_insert(0) += amt; for k in m.mods(0) { m.counts.entry(k).or_default().0 += 1; } }
                    outcome = Some(("forced_transfer", g, x));
                }
                Step::IdRecover { old, new } => {
                    let g = IrsRealClient::new(e, &irs_id).try_recover_identity(&a(*old), &a(*new)).is_ok();
                    let x = !m.rec.contains_key(new) && m.reg.contains(old) && !m.reg.contains(new);
                    if x { m.reg.remove(old); m.reg.insert(*new); m.rec.insert(*old, *new); st.hit("probe.identity_recovered"); }
                    outcome = Some(("recover_identity", g, x));
                }
                Step::TokRecover { old, new } => {
                    let r = c.try_recover_balance(&a(*old), &a(*new));
                    let g = r.is_ok();
                    // the new account must be verified (registered: no topic is required here) and be the registry's recovery target
                    let x = m.reg.contains(new) && m.rec.get(old) == Some(new) && (m.b(*old) == 0 || m.bound);
                    if x {
                        let moved = m.b(*old);
                        if r != Ok(Ok(moved > 0)) {
                            return Err(violation("recover.whole_balance_to_target", "return", i, format!("{s:?} returned {r:?} with a lost balance of {moved}")));
                        }
                        if moved > 0 {
                            st.hit("probe.balance_recovered_via_real_registry_link");
                            m.bal.insert(*old, 0);
                            *m.bal.entry(*new).or_insert(0) += moved;
                            for k in m.mods(0) { m.counts.entry(k).or_default().0 += 1; }
                        }
                    }
                    outcome = Some(("recover_balance", g, x));
                }
                Step::Burn { who, amt } => {
                    let g = c.try_burn(&a(*who), amt).is_ok();
                    let x = m.b(*who) >= *amt && m.bound;
                    if x { *m.bal.entry(*who).or_insert(0) -= amt; for k in m.mods(2) { m.counts.entry(k).or_default().2 += 1; } }
                    outcome = Some(("burn", g, x));
                }
            }
            if let Some((kind, got, exp)) = outcome {
                st.tx(kind, got);
                if got != exp {
                    let check = match (kind, got) { ("transfer", true) => "gate.transfer", ("mint", true) => "gate.mint", ("recover_balance", true) => "recover.whole_balance_to_target", ("add_module_to" | "remove_module_from", _) => "modules.dup_or_absent_refused", (_, true) => "refine.must_fail", _ => "live.open_gates_succeed" };
                    return Err(violation(check, kind, i, format!("{s:?}: real {got} model {exp}; model {m:?}")));
                }
                if !got && w.storage_digest(&[&tok, &comp, &mods[0], &mods[1], &mods[2]]) != before { self.clause(st, &mut parked, violation("fail.no_trace", kind, i, format!("{s:?}")))?; }
            }
            for k in 0..mods.len() {
                let have = ModuleClient::new(e, &mods[k]).counts();
                if have != *m.counts.get(&k).unwrap_or(&(0, 0, 0)) { self.clause(st, &mut parked, violation("notify.exactly_once", "module", i, format!("module {k} saw {have:?}, expected {:?} after {s:?}", m.counts.get(&k))))?; }
            }
            for h in 0..5 {
                let got: std::vec::Vec<Address> = cc.get_modules_for_hook(&HOOKS[h]).iter().collect();
                let want: std::vec::Vec<Address> = m.mods(h).iter().map(|k| mods[*k].clone()).collect();
                let (mut got, mut want) = (got, want);
                got.sort();
                want.sort();
                if got != want { self.clause(st, &mut parked, violation("modules.getters_eq_model", "get_modules_for_hook", i, format!("hook {h} after {s:?}")))?; }
                for k in 0..mods.len() { if cc.is_module_registered(&HOOKS[h], &mods[k]) != m.mods(h).contains(&k) { self.clause(st, &mut parked, violation("modules.getters_eq_model", "is_module_registered", i, format!("hook {h} module {k}")))?; } }
            }
            for x in 0..cfg.actors {
                let link = IdvRealClient::new(e, &idv_id).recovery_target(&a(x));
                if link != m.rec.get(&x).map(|n| a(*n)) { self.clause(st, &mut parked, violation("recover.whole_balance_to_target", "recovery_target", i, format!("actor {x}: verifier reports {link:?}, model {:?} after {s:?}", m.rec.get(&x))))?; }
            }
            for x in 0..cfg.actors { if c.balance(&a(x)) != m.b(x) { self.clause(st, &mut parked, violation("state.model_eq", "balance", i, format!("actor {x} after {s:?}")))?; } }
            if let Some(v) = parked.take() {
                return Err(v);
            }
            st.state(&(m.hooks.clone(), m.bound, m.reg.clone(), m.rec.clone()));
        }
        Ok(())
    }
}
