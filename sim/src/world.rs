//! Shared world-building helpers: actors with wallets, exact authorization entries, clock, digests.

use soroban_sdk::{
    contract, contractimpl,
    testutils::{Address as _, Ledger},
    xdr::{self, Limits, WriteXdr},
    Address, Env, TryFromVal, Val, Vec as SVec,
};
use std::cell::Cell;

/// A wallet that accepts any signature: the *host* still matches the exact invocation tree of the
/// entry and consumes its nonce; what the actor "signs" is decided by the simulator.
#[contract]
pub struct Wallet;
#[contractimpl]
impl Wallet {
    #[allow(non_snake_case)]
    pub fn __check_auth(_signature_payload: Val, _signatures: Val, _auth_context: Val) {}
}

/// Owned description of an authorized invocation tree.
#[derive(Clone, Debug)]
pub struct Inv {
    pub contract: Address,
    pub fn_name: &'static str,
    pub args: SVec<Val>,
    pub subs: Vec<Inv>,
}
impl Inv {
    pub fn new(contract: &Address, fn_name: &'static str, args: SVec<Val>) -> Inv {
        Inv { contract: contract.clone(), fn_name, args, subs: vec![] }
    }
    pub fn with(mut self, sub: Inv) -> Inv {
        self.subs.push(sub);
        self
    }
    pub fn to_xdr(&self, e: &Env) -> xdr::SorobanAuthorizedInvocation {
        let args: Vec<xdr::ScVal> = self.args.iter().map(|v| xdr::ScVal::try_from_val(e, &v).unwrap()).collect();
        xdr::SorobanAuthorizedInvocation {
            function: xdr::SorobanAuthorizedFunction::ContractFn(xdr::InvokeContractArgs {
                contract_address: (&self.contract).try_into().unwrap(),
                function_name: self.fn_name.try_into().unwrap(),
                args: args.try_into().unwrap(),
            }),
            sub_invocations: self.subs.iter().map(|s| s.to_xdr(e)).collect::<Vec<_>>().try_into().unwrap(),
        }
    }
}

pub struct Base {
    pub e: Env,
    pub actors: Vec<Address>,
    nonce: Cell<i64>,
}

impl Base {
    pub fn new(n_actors: usize, start_ledger: u32, min_temp_ttl: u32) -> Base {
        let e = Env::default();
        e.cost_estimate().disable_resource_limits();
        // the host meters CPU and memory per invocation; a simulated history is not a priced transaction, and a probe over
        // several contexts and many policies can exceed the default budget (seen once in 30 000 thorough histories)
        e.cost_estimate().budget().reset_unlimited();
        e.ledger().with_mut(|li| {
            li.sequence_number = start_ledger;
            li.timestamp = 1_700_000_000;
            li.min_temp_entry_ttl = min_temp_ttl;
        });
        let actors: Vec<Address> = (0..n_actors).map(|_| Address::generate(&e)).collect();
        for a in &actors {
            e.register_at(a, Wallet, ());
        }
        Base { e, actors, nonce: Cell::new(1) }
    }
    pub fn next_nonce(&self) -> i64 {
        let n = self.nonce.get();
        self.nonce.set(n + 1);
        n
    }
    /// sha256 of the SorobanAuthorization preimage = the payload a custom account is asked to check
    pub fn payload(&self, nonce: i64, expiration: u32, inv: &xdr::SorobanAuthorizedInvocation) -> [u8; 32] {
        let pre = xdr::HashIdPreimage::SorobanAuthorization(xdr::HashIdPreimageSorobanAuthorization {
            network_id: xdr::Hash(self.e.ledger().network_id().to_array()),
            nonce,
            signature_expiration_ledger: expiration,
            invocation: inv.clone(),
        });
        let bytes = pre.to_xdr(Limits::none()).unwrap();
        self.e.crypto().sha256(&soroban_sdk::Bytes::from_slice(&self.e, &bytes)).to_array()
    }
    /// entries for wallets (actors) plus raw pre-built entries (custom accounts)
    pub fn set_auth_mixed(&self, entries: &[(usize, Inv)], raw: Vec<xdr::SorobanAuthorizationEntry>) {
        let now = self.now();
        let mut v: Vec<xdr::SorobanAuthorizationEntry> = entries
            .iter()
            .map(|(who, inv)| xdr::SorobanAuthorizationEntry {
                credentials: xdr::SorobanCredentials::Address(xdr::SorobanAddressCredentials {
                    address: (&self.actors[*who]).try_into().unwrap(),
                    nonce: self.next_nonce(),
                    signature_expiration_ledger: now + 100,
                    signature: xdr::ScVal::Void,
                }),
                root_invocation: inv.to_xdr(&self.e),
            })
            .collect();
        v.extend(raw);
        self.e.set_auths(&v);
    }
    pub fn now(&self) -> u32 {
        self.e.ledger().sequence()
    }
    pub fn advance(&self, ledgers: u32) {
        let l = self.e.ledger().sequence();
        let t = self.e.ledger().timestamp();
        self.e.ledger().with_mut(|li| {
            li.sequence_number = l + ledgers;
            li.timestamp = t + 5 * ledgers as u64;
        });
    }
    pub fn idx(&self, a: &Address) -> Option<usize> {
        self.actors.iter().position(|x| x == a)
    }
    /// Attach exactly these (signer, invocation tree) entries to the next top-level call.
    pub fn set_auth(&self, entries: &[(usize, Inv)]) {
        let now = self.now();
        let v: Vec<xdr::SorobanAuthorizationEntry> = entries
            .iter()
            .map(|(who, inv)| {
                let n = self.nonce.get();
                self.nonce.set(n + 1);
                xdr::SorobanAuthorizationEntry {
                    credentials: xdr::SorobanCredentials::Address(xdr::SorobanAddressCredentials {
                        address: (&self.actors[*who]).try_into().unwrap(),
                        nonce: n,
                        signature_expiration_ledger: now + 100,
                        signature: xdr::ScVal::Void,
                    }),
                    root_invocation: inv.to_xdr(&self.e),
                }
            })
            .collect();
        self.e.set_auths(&v);
    }
    /// Digest of the contract-data *values* of the given contracts (ignores live_until and nonces).
    pub fn storage_digest(&self, contracts: &[&Address]) -> u64 {
        use std::hash::{Hash, Hasher};
        let ids: Vec<xdr::ScAddress> = contracts.iter().map(|a| (*a).try_into().unwrap()).collect();
        let mut h = crate::core::Fnv(0xcbf29ce484222325);
        let entries = self.e.host().get_stored_entries().unwrap();
        for (k, v) in entries.iter() {
            if let xdr::LedgerKey::ContractData(cd) = k.as_ref() {
                if !ids.contains(&cd.contract) {
                    continue;
                }
                if let Some((entry, live)) = v {
                    // expired temporary entries are invisible to contracts
                    if cd.durability == xdr::ContractDataDurability::Temporary {
                        if let Some(l) = live {
                            if *l < self.now() {
                                continue;
                            }
                        }
                    }
                    k.to_xdr(Limits::none()).unwrap().hash(&mut h);
                    if let xdr::LedgerEntryData::ContractData(d) = &entry.data {
                        d.val.to_xdr(Limits::none()).unwrap().hash(&mut h);
                    }
                }
            }
        }
        h.finish()
    }
}

/// Decoded contract event: emitting contract, first topic as text, remaining topics, named i128 data fields.
pub struct Ev {
    pub contract: xdr::ScAddress,
    pub name: String,
    pub topics: Vec<xdr::ScVal>,
    pub data: std::collections::BTreeMap<String, i128>,
}
impl Ev {
    /// named i128 field of the event data, if present
    pub fn amt(&self, k: &str) -> Option<i128> {
        self.data.get(k).copied()
    }
}
impl Base {
    /// the actor named by topic `k` (after the event name) of an event, if it is one
    pub fn party(&self, ev: &Ev, k: usize) -> Option<usize> {
        ev.topics.get(k).and_then(|t| self.actor_of(t))
    }
    pub fn last_events(&self) -> Vec<Ev> {
        use soroban_sdk::testutils::Events as _;
        let mut out = vec![];
        for ev in self.e.events().all().events() {
            let xdr::ContractEventBody::V0(b) = &ev.body;
            let name = match b.topics.first() {
                Some(xdr::ScVal::Symbol(s)) => s.to_utf8_string_lossy(),
                _ => String::new(),
            };
            let mut data = std::collections::BTreeMap::new();
            if let xdr::ScVal::Map(Some(mp)) = &b.data {
                for en in mp.iter() {
                    if let (xdr::ScVal::Symbol(k), xdr::ScVal::I128(p)) = (&en.key, &en.val) {
                        data.insert(k.to_utf8_string_lossy(), ((p.hi as i128) << 64) | p.lo as i128);
                    }
                }
            }
            out.push(Ev { contract: xdr::ScAddress::Contract(ev.contract_id.clone().unwrap()), name, topics: b.topics.iter().skip(1).cloned().collect(), data });
        }
        out
    }
    pub fn actor_of(&self, v: &xdr::ScVal) -> Option<usize> {
        if let xdr::ScVal::Address(sa) = v {
            self.actors.iter().position(|x| xdr::ScAddress::try_from(x).unwrap() == *sa)
        } else {
            None
        }
    }
}
