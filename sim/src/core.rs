//! Generic simulation core: PRNG, run loop, parallel runner, trace shrinker, replay files, evidence.
//! (scratch prototype — to be promoted to /verif/sim/crates/simcore)

use serde::{de::DeserializeOwned, Deserialize, Serialize};
use std::collections::{BTreeMap, BTreeSet};
use std::fmt::Debug;
use std::sync::atomic::{AtomicU64, Ordering};
use std::sync::Mutex;

// ------------------------------------------------------------------ PRNG (SplitMix64)
#[derive(Clone)]
pub struct Rng(pub u64);
impl Rng {
    pub fn for_run(seed: u64, prop: &str, run: u64) -> Rng {
        let mut h = seed ^ 0x5851F42D4C957F2D;
        for b in prop.bytes() {
            h = (h ^ b as u64).wrapping_mul(0x100000001B3);
        }
        let mut r = Rng(h ^ run.wrapping_mul(0xD1B54A32D192ED03));
        r.next();
        r
    }
    pub fn next(&mut self) -> u64 {
        self.0 = self.0.wrapping_add(0x9E3779B97F4A7C15);
        let mut z = self.0;
        z = (z ^ (z >> 30)).wrapping_mul(0xBF58476D1CE4E5B9);
        z = (z ^ (z >> 27)).wrapping_mul(0x94D049BB133111EB);
        z ^ (z >> 31)
    }
    pub fn below(&mut self, n: u64) -> u64 {
        if n == 0 {
            0
        } else {
            self.next() % n
        }
    }
    pub fn range(&mut self, lo: u64, hi_incl: u64) -> u64 {
        lo + self.below(hi_incl - lo + 1)
    }
    pub fn chance(&mut self, pct: u64) -> bool {
        self.below(100) < pct
    }
    pub fn pick<'a, T>(&mut self, xs: &'a [T]) -> &'a T {
        &xs[self.below(xs.len() as u64) as usize]
    }
    /// weighted choice: returns index
    pub fn weighted(&mut self, w: &[u32]) -> usize {
        let tot: u64 = w.iter().map(|x| *x as u64).sum();
        let mut r = self.below(tot.max(1));
        for (i, x) in w.iter().enumerate() {
            if r < *x as u64 {
                return i;
            }
            r -= *x as u64;
        }
        w.len() - 1
    }
    /// i128 amount of a random bit length (0..=126 bits), non-negative
    pub fn amount_bits(&mut self) -> i128 {
        let bits = self.below(127) as u32;
        if bits == 0 {
            return 0;
        }
        let hi = (self.next() as u128) << 64 | self.next() as u128;
        ((hi >> (128 - bits)) | (1u128 << (bits - 1))) as i128
    }
}

// ------------------------------------------------------------------ stats / violations
#[derive(Default, Clone, Debug)]
pub struct Stats {
    pub counters: BTreeMap<String, u64>,
    pub states: BTreeSet<u64>,
    pub grams: BTreeSet<u64>,
    pub ledgers: u64,
    pub seconds: u64,
    /// order-sensitive hash of everything the run reported (determinism digest)
    pub trace: u64,
    /// (hash of previous op kind, its outcome) for the 3-gram measure
    pub prev: (u64, bool),
    /// the property being decided (None outside a property check): worlds that serve several properties skip the pure
    /// observation clauses of the other properties, so that such a clause cannot mask a later clause of this one
    pub focus: Option<String>,
}
impl Stats {
    pub fn focused(prop: &str) -> Stats {
        Stats { focus: Some(prop.to_string()), ..Default::default() }
    }
    fn mix(&mut self, x: u64) {
        self.trace = (self.trace ^ x).wrapping_mul(0x100000001b3).rotate_left(17);
    }
    pub fn hit(&mut self, k: &str) {
        let mut h = Fnv(0xcbf29ce484222325);
        std::hash::Hasher::write(&mut h, k.as_bytes());
        self.mix(h.0);
        *self.counters.entry(k.to_string()).or_insert(0) += 1;
    }
    /// one transaction of kind `kind` was delivered and succeeded / was refused
    pub fn tx(&mut self, kind: &str, ok: bool) {
        self.hit(if ok { "tx.ok" } else { "tx.refused" });
        self.hit(&format!("op.{}.{}", kind, if ok { "ok" } else { "refused" }));
        let mut h = Fnv(0xcbf29ce484222325);
        std::hash::Hasher::write(&mut h, kind.as_bytes());
        let cur = (h.0, ok);
        let p = self.prev;
        self.gram(&(p, cur));
        self.prev = cur;
    }
    pub fn add(&mut self, k: &str, n: u64) {
        if n == 0 {
            return;
        }
        *self.counters.entry(k.to_string()).or_insert(0) += n;
    }
    pub fn merge(&mut self, o: Stats) {
        for (k, v) in o.counters {
            *self.counters.entry(k).or_insert(0) += v;
        }
        self.states.extend(o.states);
        self.grams.extend(o.grams);
        self.ledgers += o.ledgers;
        self.seconds += o.seconds;
    }
    pub fn state<T: std::hash::Hash>(&mut self, t: &T) {
        use std::hash::Hasher;
        let mut h = Fnv(0xcbf29ce484222325);
        t.hash(&mut h);
        self.mix(h.finish());
        self.states.insert(h.finish());
    }
    pub fn gram<T: std::hash::Hash>(&mut self, t: &T) {
        use std::hash::Hasher;
        let mut h = Fnv(0xcbf29ce484222325);
        t.hash(&mut h);
        self.mix(h.finish());
        self.grams.insert(h.finish());
    }
}
pub struct Fnv(pub u64);
impl std::hash::Hasher for Fnv {
    fn finish(&self) -> u64 {
        self.0
    }
    fn write(&mut self, bytes: &[u8]) {
        for b in bytes {
            self.0 = (self.0 ^ *b as u64).wrapping_mul(0x100000001b3);
        }
    }
}

#[derive(Clone, Debug, Serialize, Deserialize)]
pub struct Violation {
    pub check: String,
    pub signature: String,
    pub step: usize,
    pub detail: String,
}
pub fn violation(check: &str, disc: &str, step: usize, detail: String) -> Violation {
    Violation { check: check.to_string(), signature: format!("{check}/{disc}"), step, detail }
}

#[derive(Clone, Copy, Debug, PartialEq, Serialize, Deserialize)]
pub enum Tier {
    Quick,
    Thorough,
}

// ------------------------------------------------------------------ the per-property interface
pub trait Check: Sync {
    type Cfg: Serialize + DeserializeOwned + Clone + Debug + Send;
    type Step: Serialize + DeserializeOwned + Clone + Debug + Send;
    fn id(&self) -> &'static str;
    fn runs(&self, tier: Tier) -> u64;
    /// pure function of the rng: configuration and the whole trace (generator consults its own model)
    fn generate(&self, rng: &mut Rng, tier: Tier) -> (Self::Cfg, Vec<Self::Step>);
    /// execute against the real code with the model in lockstep
    fn execute(&self, cfg: &Self::Cfg, steps: &[Self::Step], stats: &mut Stats) -> Result<(), Violation>;
    /// simpler variants of one step (for the shrinker); default none
    fn simplify(&self, _s: &Self::Step) -> Vec<Self::Step> {
        vec![]
    }
    fn components(&self) -> serde_json::Value;
    /// properties a named oracle clause belongs to; empty = every property this world serves
    fn property_of(&self, _check: &str) -> Vec<&'static str> {
        vec![]
    }
    /// A pure observation clause (one that does not steer the model) was found violated. If it belongs to the property
    /// being decided it ends the run at once; otherwise it is parked, the remaining observation clauses of the same step
    /// are still evaluated (one of them may belong to the property being decided — without this, the clause that happens
    /// to be evaluated first would mask it), and the world returns the parked violation at the end of the step or
    /// before any outcome clause.
    fn clause(&self, st: &Stats, parked: &mut Option<Violation>, v: Violation) -> Result<(), Violation> {
        if self.wants(st, &v.check) {
            Err(v)
        } else {
            if parked.is_none() {
                *parked = Some(v);
            }
            Ok(())
        }
    }
    /// is this (pure observation) clause to be evaluated in a run that decides `st.focus`?
    fn wants(&self, st: &Stats, check: &str) -> bool {
        match &st.focus {
            None => true,
            Some(p) => {
                let o = self.property_of(check);
                o.is_empty() || o.iter().any(|x| x == p)
            }
        }
    }
    /// Mempool faults (applied by the core after generation, recorded in the trace, so replay is unaffected):
    /// may this step be delivered twice in a row (re-submitted with a fresh signature)? Default: never.
    fn dup_ok(&self, _s: &Self::Step) -> bool {
        false
    }
    /// may steps of this world be dropped or swapped with their neighbour (delivery order differing from
    /// preparation order)? Only worlds whose lockstep model accepts *any* step sequence opt in.
    fn reorder_ok(&self) -> bool {
        false
    }
    /// Clock faults inserted by the core: the step that lets `n` ledgers pass, for worlds whose model is
    /// indifferent to (or fully models) the passage of that much time. Storage written to the wrong tier
    /// (temporary instead of persistent) only shows after long jumps, so every world should allow them.
    fn clock_step(&self, _n: u32) -> Option<Self::Step> {
        None
    }
    /// upper bound for the total number of ledgers the core may insert into one history
    fn clock_budget(&self) -> u64 {
        20_000_000
    }
    /// counters that must not stay at zero (boundary situations the property depends on)
    fn probes(&self, _prop: &str) -> Vec<&'static str> {
        vec![]
    }
}

#[derive(Serialize, Deserialize)]
pub struct Replay<C, S> {
    pub property: String,
    #[serde(default)]
    pub world: String,
    pub seed: u64,
    pub run: u64,
    pub cfg: C,
    pub steps: Vec<S>,
    pub violation: Violation,
}

fn guarded<C: Check>(c: &C, cfg: &C::Cfg, steps: &[C::Step], stats: &mut Stats) -> Result<(), Violation> {
    let r = std::panic::catch_unwind(std::panic::AssertUnwindSafe(|| c.execute(cfg, steps, stats)));
    match r {
        Ok(x) => x,
        Err(p) => {
            let msg = p
                .downcast_ref::<String>()
                .cloned()
                .or_else(|| p.downcast_ref::<&str>().map(|s| s.to_string()))
                .unwrap_or_else(|| "panic".into());
            if msg.contains("HostError") {
                // a public entry point / getter that the harness calls as infallible (it answered on the unchanged
                // tree for every seed tried) failed inside the contract: reported as a violation, not a harness error
                Err(violation("api.infallible_call_failed", "host_error", 0, msg.chars().take(400).collect()))
            } else {
                Err(violation("harness.panic", "panic", 0, msg))
            }
        }
    }
}

pub fn shrink<C: Check>(c: &C, prop: &str, cfg: &C::Cfg, mut steps: Vec<C::Step>, v: &Violation) -> (Vec<C::Step>, Violation) {
    let mut best = v.clone();
    let mut budget = 4000usize;
    // wall-clock cap per signature (histories of the capacity scenarios take seconds each): when it is reached the best
    // trace found so far is kept; the replay file holds whatever trace is reported, so replay is unaffected
    let t0 = std::time::Instant::now();
    let cap = std::time::Duration::from_secs(std::env::var("VERIF_SHRINK_SECS").ok().and_then(|x| x.parse().ok()).unwrap_or(45));
    let mut same = |st: &[C::Step], budget: &mut usize| -> Option<Violation> {
        if *budget == 0 || t0.elapsed() > cap {
            *budget = 0;
            return None;
        }
        *budget -= 1;
        let mut s = Stats::focused(prop);
        match guarded(c, cfg, st, &mut s) {
            // same violation class = same oracle clause; the operation kind at which it shows may change while shrinking
            Err(v2) if v2.check == v.check => Some(v2),
            _ => None,
        }
    };
    // drop the tail after the violating step first
    if best.step + 1 < steps.len() {
        let cand: Vec<_> = steps[..=best.step].to_vec();
        if let Some(v2) = same(&cand, &mut budget) {
            steps = cand;
            best = v2;
        }
    }
    loop {
        let mut progressed = false;
        // chunks then singles (ddmin-like)
        let mut chunk = (steps.len() / 2).max(1);
        while chunk >= 1 {
            let mut i = 0;
            while i < steps.len() {
                let end = (i + chunk).min(steps.len());
                let mut cand = steps.clone();
                cand.drain(i..end);
                if !cand.is_empty() || true {
                    if let Some(v2) = same(&cand, &mut budget) {
                        steps = cand;
                        best = v2;
                        progressed = true;
                        continue;
                    }
                }
                i += chunk;
            }
            if chunk == 1 {
                break;
            }
            chunk /= 2;
        }
        for i in 0..steps.len() {
            for alt in c.simplify(&steps[i]) {
                let mut cand = steps.clone();
                cand[i] = alt;
                if let Some(v2) = same(&cand, &mut budget) {
                    steps = cand;
                    best = v2;
                    progressed = true;
                    break;
                }
            }
        }
        if !progressed || budget == 0 {
            break;
        }
    }
    (steps, best)
}


pub fn known_findings(prop: &str) -> Vec<(String, String)> {
    // lines: "finding: property=C16 signature=<sig> <text>"   (read-only at run time)
    let path = std::env::var("VERIF_KNOWN").unwrap_or_else(|_| format!("{}/known_findings.txt", verif_root()));
    let mut out = vec![];
    if let Ok(s) = std::fs::read_to_string(path) {
        for l in s.lines() {
            let l = l.trim();
            if let Some(rest) = l.strip_prefix("finding:") {
                let mut p = None;
                let mut sig = None;
                for tok in rest.split_whitespace() {
                    if let Some(x) = tok.strip_prefix("property=") {
                        p = Some(x.to_string())
                    }
                    if let Some(x) = tok.strip_prefix("signature=") {
                        sig = Some(x.to_string())
                    }
                }
                if p.as_deref() == Some(prop) {
                    if let Some(sg) = sig {
                        out.push((sg, rest.trim().to_string()));
                    }
                }
            }
        }
    }
    out
}

pub fn verif_root() -> String {
    std::env::var("VERIF_ROOT").unwrap_or_else(|_| "/verif".into())
}

/// What one world contributed to a property check.
pub struct WorldReport {
    pub world: &'static str,
    pub runs: u64,
    pub stats: Stats,
    pub samples: Vec<serde_json::Value>,
    pub violating_runs: u64,
    pub foreign_runs: u64,
    pub digest: u64,
    pub exit: i32,
    pub components: serde_json::Value,
    pub wall: f64,
    pub per_run_digests: Vec<u64>,
}

/// Type-erased world, so that one property can be decided over several worlds.
pub trait DynWorld: Sync {
    fn name(&self) -> &'static str;
    fn run(&self, prop: &str, tier: Tier, seed: u64, out_dir: &str, share: f64) -> WorldReport;
    fn replay(&self, path: &str) -> i32;
    fn probes(&self, prop: &str) -> Vec<&'static str>;
}
pub struct Erased<C: Check>(pub C);
impl<C: Check> DynWorld for Erased<C> {
    fn name(&self) -> &'static str {
        self.0.id()
    }
    fn run(&self, prop: &str, tier: Tier, seed: u64, out_dir: &str, share: f64) -> WorldReport {
        run_world(&self.0, prop, tier, seed, out_dir, share)
    }
    fn replay(&self, path: &str) -> i32 {
        replay_file(&self.0, path)
    }
    fn probes(&self, prop: &str) -> Vec<&'static str> {
        self.0.probes(prop)
    }
}

/// Mempool model: what was prepared is not exactly what is delivered. With swarm-chosen rates a prepared tx is
/// delivered twice (duplicate / re-submission), never (loss), or after its successor (reordering / delay).
/// Returns the delivered sequence and how often each fault fired.
pub fn mempool<C: Check>(c: &C, rng: &mut Rng, steps: Vec<C::Step>) -> (Vec<C::Step>, [u64; 3]) {
    let mut fired = [0u64; 3];
    if !c.reorder_ok() && !steps.iter().any(|s| c.dup_ok(s)) {
        return (steps, fired);
    }
    // a third of the runs have no mempool faults at all (fault-free class); rates are per run
    if rng.chance(34) {
        return (steps, fired);
    }
    let (dup, drop, swap) = (rng.below(7), if c.reorder_ok() { rng.below(5) } else { 0 }, if c.reorder_ok() { rng.below(7) } else { 0 });
    let mut out: Vec<C::Step> = Vec::with_capacity(steps.len() + 8);
    for s in steps {
        if rng.chance(drop) {
            fired[1] += 1;
            continue;
        }
        let twice = c.dup_ok(&s) && rng.chance(dup);
        if twice {
            fired[0] += 1;
            out.push(s.clone());
        }
        out.push(s);
        let n = out.len();
        if n >= 2 && rng.chance(swap) {
            out.swap(n - 1, n - 2);
            fired[2] += 1;
        }
    }
    (out, fired)
}

/// Clock faults: long waits between transactions (a week, a month, several months, a year of ledgers).
pub fn clock_faults<C: Check>(c: &C, rng: &mut Rng, mut steps: Vec<C::Step>) -> (Vec<C::Step>, u64) {
    if c.clock_step(1).is_none() || rng.chance(40) {
        return (steps, 0);
    }
    let mut budget = c.clock_budget();
    let k = 1 + rng.below(3);
    let mut fired = 0;
    for _ in 0..k {
        let sizes: Vec<u32> = [17u32, 4_100, 120_960, 535_680, 1_600_000, 3_200_000, 6_400_000].into_iter().filter(|x| (*x as u64) <= budget).collect();
        if sizes.is_empty() {
            break;
        }
        let n = *rng.pick(&sizes);
        budget -= n as u64;
        let pos = rng.below(steps.len() as u64 + 1) as usize;
        steps.insert(pos, c.clock_step(n).unwrap());
        fired += 1;
    }
    (steps, fired)
}

fn run_digest(st: &Stats, ok: bool) -> u64 {
    use std::hash::{Hash, Hasher};
    let mut h = Fnv(0xcbf29ce484222325);
    for (k, v) in &st.counters {
        k.hash(&mut h);
        v.hash(&mut h);
    }
    st.trace.hash(&mut h);
    st.ledgers.hash(&mut h);
    ok.hash(&mut h);
    h.finish()
}

pub fn run_world<C: Check>(c: &C, prop: &str, tier: Tier, seed: u64, out_dir: &str, share: f64) -> WorldReport {
    let t0 = std::time::Instant::now();
    let scale: f64 = std::env::var("VERIF_SCALE").ok().and_then(|s| s.parse().ok()).unwrap_or(1.0);
    let runs = std::env::var("VERIF_RUNS").ok().and_then(|s| s.parse().ok()).unwrap_or_else(|| ((c.runs(tier) as f64 * share * scale).ceil() as u64).max(1));
    let workers: usize = std::env::var("VERIF_WORKERS").ok().and_then(|s| s.parse().ok()).unwrap_or(16);
    let next = AtomicU64::new(0);
    let total = Mutex::new(Stats::default());
    let viols: Mutex<BTreeMap<String, (u64, C::Cfg, Vec<C::Step>, Violation)>> = Mutex::new(BTreeMap::new());
    let samples: Mutex<BTreeMap<u64, serde_json::Value>> = Mutex::new(BTreeMap::new());
    let nviol = AtomicU64::new(0);
    let nforeign = AtomicU64::new(0);
    let gen_panics = AtomicU64::new(0);
    let digests: Mutex<BTreeMap<u64, u64>> = Mutex::new(BTreeMap::new());
    std::thread::scope(|sc| {
        for _ in 0..workers {
            sc.spawn(|| {
                let mut local = Stats::default();
                let mut local_digests = vec![];
                loop {
                    let run = next.fetch_add(1, Ordering::Relaxed);
                    if run >= runs {
                        break;
                    }
                    // the run's PRNG depends on (seed, world, run index) only: the same history is explored
                    // whichever property asks for it, on whichever worker
                    let mut rng = Rng::for_run(seed, c.id(), run);
                    let gen = std::panic::catch_unwind(std::panic::AssertUnwindSafe(|| c.generate(&mut rng, tier)));
                    let Ok((cfg, steps)) = gen else {
                        // a generator panic is a harness error, never a verdict about the code
                        gen_panics.fetch_add(1, Ordering::Relaxed);
                        continue;
                    };
                    let (steps, mp) = mempool(c, &mut rng, steps);
                    let (steps, jumps) = clock_faults(c, &mut rng, steps);
                    let mut st = if prop.starts_with('C') { Stats::focused(prop) } else { Stats::default() };
                    let r = guarded(c, &cfg, &steps, &mut st);
                    st.add("fault.mempool_duplicate_delivery", mp[0]);
                    st.add("fault.mempool_lost_tx", mp[1]);
                    st.add("fault.mempool_reordered_delivery", mp[2]);
                    st.add("clock.inserted_long_wait", jumps);
                    local_digests.push((run, run_digest(&st, r.is_ok())));
                    let nontrivial = st.counters.get("tx.ok").copied().unwrap_or(0) > 0 && st.counters.get("tx.refused").copied().unwrap_or(0) > 0;
                    if nontrivial {
                        st.hit("runs.nontrivial");
                    } else {
                        // a run without both a successful state change and a refused tx contributes no "distinct non-trivial" cases
                        st.states.clear();
                        st.grams.clear();
                    }
                    st.trace = 0;
                    local.merge(st);
                    local.hit("runs");
                    if run < 2 {
                        samples.lock().unwrap().insert(run, serde_json::json!({"world": c.id(), "run": run, "cfg": cfg, "steps": steps.iter().take(20).collect::<Vec<_>>() }));
                    }
                    if let Err(v) = r {
                        let owners = c.property_of(&v.check);
                        if v.check.starts_with("harness.") || v.check.starts_with("api.") || owners.is_empty() || owners.contains(&prop) {
                            nviol.fetch_add(1, Ordering::Relaxed);
                            let mut m = viols.lock().unwrap();
                            let e = m.get(&v.signature);
                            if e.map(|x| run < x.0).unwrap_or(true) {
                                m.insert(v.signature.clone(), (run, cfg, steps, v));
                            }
                        } else {
                            // the run was stopped by a clause that belongs to another property only
                            nforeign.fetch_add(1, Ordering::Relaxed);
                            local.hit(&format!("foreign.{}", v.check));
                        }
                    }
                }
                total.lock().unwrap().merge(local);
                digests.lock().unwrap().extend(local_digests);
            });
        }
    });
    let stats = total.into_inner().unwrap();
    let known = known_findings(prop);
    let mut exit = 0;
    if gen_panics.load(Ordering::Relaxed) > 0 {
        println!("HARNESS-ERROR property={} world={} generator panicked in {} runs", prop, c.id(), gen_panics.load(Ordering::Relaxed));
        exit = 2;
    }
    let viols = viols.into_inner().unwrap();
    // fully shrink at most a dozen distinct signatures per world (the rest lose only their tail) to bound the time spent
    let mut shrunk = 0;
    for (sig, (run, cfg, steps, v)) in viols {
        let n0 = steps.len();
        let (min, v2) = if shrunk < 12 {
            shrink(c, prop, &cfg, steps, &v)
        } else {
            // beyond a dozen distinct signatures per world only the tail after the violating step is cut
            let cut = (v.step + 1).min(steps.len());
            let cand = steps[..cut].to_vec();
            let mut tmp = Stats::focused(prop);
            match guarded(c, &cfg, &cand, &mut tmp) {
                Err(v2) if v2.check == v.check => (cand, v2),
                _ => (steps, v),
            }
        };
        shrunk += 1;
        let path = format!("{}/replays/{}-{}-{}-{}-{}.json", out_dir, prop, c.id(), seed, run, sig.replace('/', "_").replace('.', "_").replace(' ', "_"));
        let _ = std::fs::create_dir_all(format!("{}/replays", out_dir));
        let rp = Replay { property: prop.to_string(), world: c.id().to_string(), seed, run, cfg, steps: min.clone(), violation: v2.clone() };
        std::fs::write(&path, serde_json::to_string_pretty(&rp).unwrap()).unwrap();
        if sig.starts_with("harness.") {
            println!("HARNESS-ERROR property={} world={} {} replay={}", prop, c.id(), v2.detail, path);
            exit = exit.max(2);
        } else if let Some((_, text)) = known.iter().find(|(k, _)| *k == sig) {
            println!("KNOWN-FINDING: property={} {}", prop, text);
        } else {
            // the replay file must reproduce the violation in a fresh process before it is reported
            let reproduced = match std::env::current_exe().ok().map(|exe| std::process::Command::new(exe).arg("replay").arg(&path).output()) {
                Some(Ok(o)) => o.status.code() == Some(1) && String::from_utf8_lossy(&o.stdout).contains(&format!("check={}", v2.signature)),
                _ => false,
            };
            if !reproduced {
                println!("HARNESS-ERROR property={} world={} violation {} did not replay from {}", prop, c.id(), sig, path);
                exit = exit.max(2);
                continue;
            }
            println!("VIOLATION property={} replay={}", prop, path);
            println!("  world={} check={} run={} steps {}->{} detail={}", c.id(), v2.signature, run, n0, min.len(), v2.detail);
            for s in min.iter().take(40) {
                println!("    {}", serde_json::to_string(s).unwrap());
            }
            if exit == 0 {
                exit = 1;
            }
        }
    }
    let digests = digests.into_inner().unwrap();
    let mut d = 0u64;
    for (run, h) in &digests {
        d ^= h.wrapping_mul(run * 2 + 1);
    }
    let wall = t0.elapsed().as_secs_f64();
    println!(
        "  [{} / {}] runs={} tx_ok={} tx_refused={} violating_runs={} foreign={} states={} grams={} wall={:.1}s digest={:x}",
        prop, c.id(), runs, stats.counters.get("tx.ok").copied().unwrap_or(0), stats.counters.get("tx.refused").copied().unwrap_or(0),
        nviol.load(Ordering::Relaxed), nforeign.load(Ordering::Relaxed), stats.states.len(), stats.grams.len(), wall, d
    );
    if nforeign.load(Ordering::Relaxed) * 2 > runs {
        println!("  note: {} of {} histories of world {} were cut short by a clause of another property — this property was explored less than usual", nforeign.load(Ordering::Relaxed), runs, c.id());
    }
    WorldReport {
        world: c.id(),
        runs,
        stats,
        samples: samples.into_inner().unwrap().into_values().collect(),
        violating_runs: nviol.load(Ordering::Relaxed),
        foreign_runs: nforeign.load(Ordering::Relaxed),
        digest: d,
        exit,
        components: c.components(),
        wall,
        per_run_digests: digests.into_values().collect(),
    }
}

/// Decide one property over all the worlds that serve it; writes evidence/<prop>.json.
pub fn run_property(prop: &str, tier: Tier, seed: u64, out_dir: &str, worlds: &[(&dyn DynWorld, f64)]) -> i32 {
    let t0 = std::time::Instant::now();
    println!("seed={} property={} tier={:?} worlds={:?}", seed, prop, tier, worlds.iter().map(|w| w.0.name()).collect::<Vec<_>>());
    let mut exit = 0;
    let mut reports = vec![];
    for (w, share) in worlds {
        let r = w.run(prop, tier, seed, out_dir, *share);
        exit = exit.max(r.exit);
        reports.push(r);
    }
    // reach probes: a boundary situation the property depends on that was never reached is a harness defect
    let mut probes = serde_json::Map::new();
    for ((w, _), r) in worlds.iter().zip(&reports) {
        for p in w.probes(prop) {
            let n = r.stats.counters.get(p).copied().unwrap_or(0);
            probes.insert(format!("{}:{}", r.world, p), n.into());
            if n == 0 {
                if tier == Tier::Thorough && std::env::var("VERIF_RUNS").is_err() && std::env::var("VERIF_SCALE").is_err() {
                    println!("HARNESS-ERROR property={} world={} reach probe {} stayed at zero", prop, r.world, p);
                    exit = exit.max(2);
                } else {
                    println!("  note: reach probe {}:{} not hit in this batch", r.world, p);
                }
            }
        }
    }
    let wall = t0.elapsed().as_secs_f64();
    let runs: u64 = reports.iter().map(|r| r.runs).sum();
    let mut counters: BTreeMap<String, u64> = BTreeMap::new();
    let (mut ledgers, mut seconds, mut states, mut grams, mut nviol) = (0u64, 0u64, 0usize, 0usize, 0u64);
    let mut samples = vec![];
    let mut per_world = serde_json::Map::new();
    for r in &reports {
        for (k, v) in &r.stats.counters {
            *counters.entry(k.clone()).or_insert(0) += v;
        }
        ledgers += r.stats.ledgers;
        seconds += r.stats.seconds;
        states += r.stats.states.len();
        grams += r.stats.grams.len();
        nviol += r.violating_runs;
        samples.extend(r.samples.iter().cloned());
        per_world.insert(
            r.world.to_string(),
            serde_json::json!({
                "runs": r.runs, "wall_s": r.wall, "runs_per_hour": (r.runs as f64 / r.wall.max(1e-9) * 3600.0) as u64,
                "txs_ok": r.stats.counters.get("tx.ok").copied().unwrap_or(0), "txs_refused": r.stats.counters.get("tx.refused").copied().unwrap_or(0),
                "nontrivial_runs": r.stats.counters.get("runs.nontrivial").copied().unwrap_or(0),
                "simulated_ledgers": r.stats.ledgers, "distinct_states": r.stats.states.len(), "distinct_3grams": r.stats.grams.len(),
                "violating_runs": r.violating_runs, "runs_stopped_by_other_property": r.foreign_runs,
                "run_digest": format!("{:x}", r.digest), "counters": r.stats.counters, "components": r.components,
            }),
        );
    }
    let faults: BTreeMap<&String, &u64> = counters.iter().filter(|(k, _)| k.starts_with("fault.") || k.starts_with("clock.") || k.starts_with("collab.")).collect();
    let ev = serde_json::json!({
        "property_id": prop,
        "tier": if tier == Tier::Quick {"quick"} else {"thorough"},
        "seed": seed,
        "level": "exploration",
        "coverage": {
            "evaluations": runs,
            "distinct_nontrivial": states + grams,
            "rule": "one evaluation = one seeded simulated history (sampled configuration + generated steps: transactions with their authorization sets, clock moves, collaborator fault scripts) executed against the real contracts with the reference model in lockstep. A history is non-trivial only if it contains at least one successful state-changing tx and at least one refused tx; distinct_nontrivial = number of distinct hashes of (abstract model state, op kind, outcome) plus distinct 3-grams of (previous op kind+outcome, op kind, outcome) observed in non-trivial histories, summed over the worlds of the property (worlds have disjoint alphabets)",
            "samples": samples,
            "txs_ok": counters.get("tx.ok").copied().unwrap_or(0), "txs_refused": counters.get("tx.refused").copied().unwrap_or(0),
            "simulated_ledgers": ledgers, "simulated_seconds": seconds.max(ledgers * 5),
            "faults_fired": faults,
            "reach_probes": probes,
            "worlds": per_world,
            "runs_per_hour": (runs as f64 / wall.max(1e-9) * 3600.0) as u64,
        },
        "assumptions": ["Soroban host + SDK test utilities are trusted (storage, TTL, rollback, auth-tree matching, nonces, crypto)", "native execution of the contracts instead of Wasm", "the reference model is the oracle; sampling, not enumeration: a clean batch is evidence, not proof"],
        "wall_s": wall,
        "violations": nviol,
    });
    let _ = std::fs::create_dir_all(format!("{}/evidence", out_dir));
    std::fs::write(format!("{}/evidence/{}.json", out_dir, prop), serde_json::to_string_pretty(&ev).unwrap()).unwrap();
    println!("{} {:?}: runs={} violating_runs={} distinct={} wall={:.1}s exit={}", prop, tier, runs, nviol, states + grams, wall, exit);
    exit
}

pub fn replay_file<C: Check>(c: &C, path: &str) -> i32 {
    let txt = std::fs::read_to_string(path).expect("replay file");
    let r: Replay<C::Cfg, C::Step> = serde_json::from_str(&txt).expect("replay json");
    let mut st = if r.property.starts_with('C') { Stats::focused(&r.property) } else { Stats::default() };
    match guarded(c, &r.cfg, &r.steps, &mut st) {
        Err(v) => {
            println!("VIOLATION property={} replay={}", r.property, path);
            println!("  check={} detail={}", v.signature, v.detail);
            if v.signature != r.violation.signature {
                println!("  (recorded signature was {})", r.violation.signature);
            }
            1
        }
        Ok(()) => {
            println!("replay {}: no violation (recorded: {})", path, r.violation.signature);
            0
        }
    }
}

/// i128 values are written as decimal strings in traces (JSON numbers cannot hold them).
pub mod i128s {
    use serde::{Deserialize, Deserializer, Serializer};
    pub fn serialize<S: Serializer>(v: &i128, s: S) -> Result<S::Ok, S::Error> {
        s.serialize_str(&v.to_string())
    }
    pub fn deserialize<'de, D: Deserializer<'de>>(d: D) -> Result<i128, D::Error> {
        let s = String::deserialize(d)?;
        s.parse().map_err(serde::de::Error::custom)
    }
}
